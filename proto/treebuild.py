"""Build real ANTLR parse-tree contexts by hand (no lexer/parser run)."""
from antlr4 import ParserRuleContext, ParseTreeWalker
from antlr4.Token import CommonToken
from antlr4.tree.Tree import TerminalNodeImpl
from cminx.parser.CMakeParser import CMakeParser as P

def tok(ttype, text, line=1):
    t = CommonToken(type=ttype)
    t.text = text
    t.line = line
    return t

def term(parent, ttype, text, line=1):
    n = TerminalNodeImpl(tok(ttype, text, line))
    n.parentCtx = parent
    parent.addChild(n)
    return n

def single_arg(parent, ttype, text):
    c = P.Single_argumentContext(None, parent)
    term(c, ttype, text)
    parent.addChild(c)
    return c

def command(parent, name, args, line=1):
    c = P.Command_invocationContext(None, parent)
    c.start = tok(P.Identifier, name, line)
    term(c, P.Identifier, name, line)
    term(c, P.T__0, "(")
    for (ttype, text) in args:
        single_arg(c, ttype, text)
    term(c, P.T__1, ")")
    parent.addChild(c)
    return c

def doccomment(parent, text):
    c = P.Bracket_doccommentContext(None, parent)
    term(c, P.Docstring, text)
    parent.addChild(c)
    return c

def file_ctx(items):
    """items: list of (doc_text_or_None, name, args)"""
    root = P.Cmake_fileContext(None)
    line = 1
    for (doc, name, args) in items:
        if doc is not None:
            dc = P.Documented_commandContext(None, root)
            doccomment(dc, doc)
            command(dc, name, args, line)
            root.addChild(dc)
        else:
            command(root, name, args, line)
        line += 1
    term(root, -1, "<EOF>")
    return root
