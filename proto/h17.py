import sys; sys.setrecursionlimit(20000)
import os
from typing import List
import cminx
from cminx.config import Settings
import cminx.rstwriter as rw

class VFS:
    dirs = {}; excluded = {}; writes = {}; mkdirs = []; root = "/in"
def v_walk(top, topdown=True, followlinks=False):
    key = top.rstrip("/") or "/"
    subdirs, files = VFS.dirs[key]; subdirs = list(subdirs); files = list(files)
    yield top, subdirs, files
    for d in subdirs: yield from v_walk(os.path.join(key, d))
class Ent:
    def __init__(s, path, isf): s.path = path; s._f = isf
    def is_file(s): return s._f
def v_scandir(p):
    p = p.rstrip("/"); subdirs, files = VFS.dirs[p]
    return [Ent(os.path.join(p, d), False) for d in subdirs] + [Ent(os.path.join(p, f), True) for f in files]
def v_isdir(p): p = p.rstrip("/"); return p in VFS.dirs or p in VFS.mkdirs or p == "/out"
def v_isfile(p): d, f = os.path.split(p); return d in VFS.dirs and f in VFS.dirs[d][1]
def v_exists(p): return v_isdir(p) or v_isfile(p)
def v_makedirs(p, exist_ok=False): VFS.mkdirs.append(p.rstrip("/"))
class Spec:
    def match_file(self, path): return VFS.excluded.get(path.rstrip("/"), False)
class FakeDocumenter:
    def __init__(self, file, title=None, module_name=None, settings=None):
        self.w = rw.RSTWriter(title, settings=settings); self.w.text("PAGE " + file)
    def process(self): return self.w
cminx.os = type("osshim", (), {"walk": staticmethod(v_walk), "scandir": staticmethod(v_scandir), "makedirs": staticmethod(v_makedirs),
        "path": type("p", (), {k: staticmethod(getattr(os.path, k)) for k in ("abspath","join","basename","normpath","relpath","dirname")} | {"isdir": staticmethod(v_isdir), "isfile": staticmethod(v_isfile), "exists": staticmethod(v_exists)})})
cminx.pathspec = type("ps", (), {"PathSpec": type("PS", (), {"from_lines": staticmethod(lambda *a: Spec())}), "patterns": type("pt", (), {"GitWildMatchPattern": None})})
cminx.Documenter = FakeDocumenter
def rec_write(self, file): VFS.writes[os.path.normpath(file)] = str(self)
rw.RSTWriter.write_to_file = rec_write

def toctree(text):
    ls = text.split("\n"); i = ls.index("   :maxdepth: 2")
    return [l.strip() for l in ls[i + 1:] if l.strip()]

def check(ex_root: List[bool], sub_has: List[int], recursive: bool, auto_ex: bool) -> bool:
    """
    /in: subdirs z0, y1 ; files b.cmake, A.CMAKE, c.txt (listing order = as written, sorted order differs)
    sub_has[i]: 0 = subdir has only n.txt, 1 = has x.cmake, 2 = has x.cmake but it is excluded by the matcher
    ex_root[j]: matcher verdict for root entry j (z0, y1, b.cmake, A.CMAKE, c.txt)
    pre: len(ex_root) == 5 and len(sub_has) == 2 and all(0 <= h <= 2 for h in sub_has)
    pre: not (ex_root[0] and ex_root[1]) and not (ex_root[2] and ex_root[3]) and not (ex_root[3] and ex_root[4])
    pre: not ex_root[2]
    pre: not (auto_ex and 2 in sub_has)
    post: _
    """
    dn = ["z0", "y1"]; fn = ["b.cmake", "A.CMAKE", "c.txt"]
    VFS.dirs = {"/in": (dn, fn)}; VFS.excluded = {}; VFS.writes = {}; VFS.mkdirs = []
    for i, d in enumerate(dn):
        VFS.dirs["/in/" + d] = ([], ["n.txt"] if sub_has[i] == 0 else ["x.cmake", "n.txt"])
        VFS.excluded["/in/" + d + "/x.cmake"] = sub_has[i] == 2
        VFS.excluded["/in/" + d] = ex_root[i]
    for j, f in enumerate(fn): VFS.excluded["/in/" + f] = ex_root[2 + j]
    s = Settings(); s.output.directory = "/out"; s.input.recursive = recursive; s.input.auto_exclude_directories_without_cmake = auto_ex
    cminx.document("/in", s)
    # ---- spec_tree
    exp_pages = set(); exp_idx = {}
    files_ok = [f for j, f in enumerate(fn) if not ex_root[2 + j]]
    cm = sorted(f for f in files_ok if f.lower().endswith(".cmake"))
    for f in cm: exp_pages.add("/out/" + f.rsplit(".", 1)[0] + ".rst")
    subs = []
    for i, d in enumerate(dn):
        if ex_root[i]: continue
        has_cmake_on_disk = sub_has[i] != 0
        if auto_ex and not has_cmake_on_disk: continue
        processed_files = ["x.cmake"] if sub_has[i] == 1 else []
        if auto_ex and not processed_files: continue        # property: directories that end up without cmake files are not processed
        subs.append((d, processed_files))
    toc = ([d + "/index.rst" for d, _ in sorted(subs)] if recursive else []) + [f.rsplit(".", 1)[0] for f in cm]
    exp_idx["/out/index.rst"] = toc
    if recursive:
        for d, pf in subs:
            exp_idx["/out/" + d + "/index.rst"] = [f.rsplit(".", 1)[0] for f in pf]
            for f in pf: exp_pages.add("/out/" + d + "/" + f.rsplit(".", 1)[0] + ".rst")
    got_pages = {p for p in VFS.writes if not p.endswith("/index.rst")}
    got_idx = {p: toctree(t) for p, t in VFS.writes.items() if p.endswith("/index.rst")}
    return got_pages == exp_pages and got_idx == exp_idx
