import re as _re
from crosshair.tracers import NoTracing
from crosshair.core import realize, deep_realize
class ReShim:
    def __getattr__(self, n):
        return getattr(_re, n)
    @staticmethod
    def sub(pattern, repl, string, *a, **k):
        with NoTracing():
            return _re.sub(deep_realize(pattern), deep_realize(repl), deep_realize(string))
import cminx.aggregator as _agg
_agg.re = ReShim()
