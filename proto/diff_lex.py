import random, sys, re as pyre
from antlr4 import InputStream, Token
from antlr4.error.ErrorListener import ErrorListener
from cminx.parser.CMakeLexer import CMakeLexer
import atn2re
rules = atn2re.token_rules(D=3)
compiled = [(r, name, pyre.compile(atn2re.to_py(rx), pyre.S), ng) for (r, name, rx, ng) in rules]
TT = {atn2re.atn.ruleToTokenType[r]: atn2re.NAMES[r] for r in range(len(atn2re.NAMES)) if atn2re.atn.ruleToTokenType[r] > 0}
SKIP = {"Bracket_comment", "Line_comment", "Newline", "Space"}
class L(ErrorListener):
    def __init__(s): s.errs = []
    def syntaxError(s, recognizer, offendingSymbol, line, column, msg, e): s.errs.append((line, column))
def real(s):
    lx = CMakeLexer(InputStream(s)); lx.removeErrorListeners(); l = L(); lx.addErrorListener(l)
    out = []
    while True:
        t = lx.nextToken()
        if l.errs: return out, "ERR"
        if t.type == Token.EOF: return out, "EOF"
        nm = TT[t.type]
        out.append((nm if not nm.startswith("T__") else t.text, t.start, t.stop + 1))
def model(s0):
    s = s0 + chr(atn2re.EOFCP)
    pos = 0; out = []
    while pos < len(s0):
        best = None
        for (r, name, pat, ng) in compiled:
            lens = [n for n in range(pos + 1, len(s) + 1) if pat.fullmatch(s, pos, n)]
            if not lens: continue
            n = min(lens) if ng else max(lens)
            if best is None or n > best[1]: best = (name, n)
        if best is None: return out, "ERR"
        name, n = best
        if name not in SKIP:
            out.append((name if not name.startswith("T__") else s[pos:n], pos, n))
        pos = n
        if pos > len(s0): break
    return out, "EOF"
# Line_comment's EOF alternative: ANTLR matches EOF as a symbol; model it by trying s and noting regex has EOF transition?
random.seed(int(sys.argv[1]) if len(sys.argv) > 1 else 0)
ALPH = list('#[]=()"\\ \t\n\rab1;$@<>_') + ["é", "#[[", "]]", "#]]", "#[[[", "@module", "\\n", '\\"']
bad = 0; N = int(sys.argv[2]) if len(sys.argv) > 2 else 20000
for i in range(N):
    s = "".join(random.choice(ALPH) for _ in range(random.randint(1, 10)))
    a, b = real(s), model(s)
    if a != b:
        bad += 1
        if bad <= 15: print(repr(s), "\n  real ", a, "\n  model", b)
print("mismatches", bad, "of", N)
