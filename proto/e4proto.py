"""Scratch prototype of E4: symbolic evaluation of cminx.document_single_file's AST into z3 terms."""
import ast, inspect, textwrap, time
from z3 import *
import cminx

class Unsupported(Exception): pass
NONE = object()

class Opt:  # Optional[str] value: (is_none: Bool, val: String)
    def __init__(s, is_none, val): s.is_none, s.val = is_none, val

def merge(c, a, b):
    """If(c, a, b) over our value kinds"""
    if a is b: return a
    if isinstance(a, Opt) or isinstance(b, Opt):
        a = a if isinstance(a, Opt) else Opt(BoolVal(False), a)
        b = b if isinstance(b, Opt) else Opt(BoolVal(False), b)
        return Opt(If(c, a.is_none, b.is_none), If(c, a.val, b.val))
    if a is None: return b     # variable undefined on one branch: keep the defined one (only read under same guard)
    if b is None: return a
    return If(c, a, b)

class Interp:
    def __init__(self, env, settings, oracle_isdir):
        self.env = dict(env); self.settings = settings; self.isdir = oracle_isdir
        self.obs = []   # (path_condition, kind, args)
        self.pc = BoolVal(True)
    # ---- expressions
    def ev(self, n):
        if isinstance(n, ast.Constant):
            if n.value is None: return NONE
            if isinstance(n.value, str): return StringVal(n.value)
            if isinstance(n.value, bool): return BoolVal(n.value)
            raise Unsupported(ast.dump(n))
        if isinstance(n, ast.Name):
            if n.id not in self.env: raise Unsupported("unbound " + n.id)
            return self.env[n.id]
        if isinstance(n, ast.Attribute):
            path = []
            m = n
            while isinstance(m, ast.Attribute): path.append(m.attr); m = m.value
            if isinstance(m, ast.Name) and m.id == "settings":
                key = ".".join(reversed(path))
                if key not in self.settings: raise Unsupported("settings." + key)
                return self.settings[key]
            raise Unsupported(ast.dump(n))
        if isinstance(n, ast.BinOp) and isinstance(n.op, ast.Add):
            return Concat(self.s(self.ev(n.left)), self.s(self.ev(n.right)))
        if isinstance(n, ast.JoinedStr):
            return ("fstring",)   # only ever passed to logger.*
        if isinstance(n, ast.UnaryOp) and isinstance(n.op, ast.Not):
            return Not(self.b(self.ev(n.operand)))
        if isinstance(n, ast.Compare) and len(n.ops) == 1:
            l, r = self.ev(n.left), self.ev(n.comparators[0]); op = n.ops[0]
            if isinstance(op, (ast.Is, ast.IsNot)) and r is NONE:
                isn = l.is_none if isinstance(l, Opt) else BoolVal(l is NONE)
                return isn if isinstance(op, ast.Is) else Not(isn)
            if isinstance(op, ast.Eq): return self.s(l) == self.s(r)
            raise Unsupported(ast.dump(n))
        if isinstance(n, ast.Call): return self.call(n)
        raise Unsupported(ast.dump(n))
    def s(self, v):
        if isinstance(v, Opt): return v.val      # reading an Optional as str is only valid under `is not None` guard
        if is_string(v): return v
        raise Unsupported("not a string: %r" % (v,))
    def b(self, v):
        if is_bool(v): return v
        raise Unsupported("not a bool: %r" % (v,))
    def fname(self, f):
        parts = []
        while isinstance(f, ast.Attribute): parts.append(f.attr); f = f.value
        if isinstance(f, ast.Name): parts.append(f.id)
        else: return None
        return ".".join(reversed(parts))
    def call(self, n):
        fn = self.fname(n.func)
        # idiom: ".".join(X.split(".")[:-1])
        if (isinstance(n.func, ast.Attribute) and n.func.attr == "join" and isinstance(n.func.value, ast.Constant) and n.func.value.value == "."
                and len(n.args) == 1 and isinstance(n.args[0], ast.Subscript)):
            sub = n.args[0]
            if (isinstance(sub.value, ast.Call) and isinstance(sub.value.func, ast.Attribute) and sub.value.func.attr == "split"
                    and len(sub.value.args) == 1 and isinstance(sub.value.args[0], ast.Constant) and sub.value.args[0].value == "."
                    and isinstance(sub.slice, ast.Slice) and sub.slice.lower is None and isinstance(sub.slice.upper, ast.UnaryOp)
                    and isinstance(sub.slice.upper.op, ast.USub) and sub.slice.upper.operand.value == 1):
                x = self.s(self.ev(sub.value.func.value))
                i = LastIndexOf(x, StringVal("."))
                return If(i < 0, StringVal(""), SubString(x, 0, i))
            raise Unsupported(ast.dump(n))
        args = [self.ev(a) for a in n.args]
        if fn == "os.path.isdir": return self.isdir(self.s(args[0]))
        if fn == "os.path.relpath": return ("relpath", self.s(args[0]), self.s(args[1]))  # resolved by harness contract below
        if fn == "os.path.basename":
            x = self.s(args[0]); i = LastIndexOf(x, StringVal("/")); return SubString(x, i + 1, Length(x))
        if fn == "os.path.dirname":
            x = self.s(args[0]); i = LastIndexOf(x, StringVal("/")); return If(i < 0, StringVal(""), If(i == 0, StringVal("/"), SubString(x, 0, i)))
        if fn == "os.path.join":
            r = self.s(args[0])
            for b_ in args[1:]:
                b_ = self.s(b_)
                r = If(PrefixOf(StringVal("/"), b_), b_, If(Or(r == StringVal(""), SuffixOf(StringVal("/"), r)), Concat(r, b_), Concat(r, StringVal("/"), b_)))
            return r
        if fn == "re.sub":
            pat = n.args[0]
            if not (isinstance(pat, ast.Constant) and pat.value == r"\.cmake$" and isinstance(n.args[1], ast.Constant) and n.args[1].value == ""):
                raise Unsupported("re.sub pattern")
            x = self.s(args[2]); return If(SuffixOf(StringVal(".cmake"), x), SubString(x, 0, Length(x) - 6), x)
        if fn and fn.startswith("logger."): return NONE
        if fn == "os.makedirs": self.obs.append((self.pc, "makedirs", args[:1])); return NONE
        if fn == "Documenter": self.obs.append((self.pc, "Documenter", args[:3])); return ("documenter",)
        if fn == "auto_documenter.process": return ("writer",)
        if fn == "output_writer.write_to_file": self.obs.append((self.pc, "write", args)); return NONE
        if fn == "print": self.obs.append((self.pc, "print", [])); return NONE
        if fn == "str": return StringVal("<page>")
        raise Unsupported("call " + str(fn))
    # ---- statements
    def run(self, body):
        for st in body: self.stmt(st)
    def assign(self, name, v):
        if isinstance(v, tuple) and v and v[0] == "relpath":
            v = self.env["__relpath__"](v[1], v[2])
        self.env[name] = v
    def stmt(self, st):
        if isinstance(st, ast.Expr):
            if isinstance(st.value, ast.Constant): return   # docstring
            self.ev(st.value); return
        if isinstance(st, ast.Assign) and len(st.targets) == 1 and isinstance(st.targets[0], ast.Name):
            return self.assign(st.targets[0].id, self.ev(st.value))
        if isinstance(st, ast.AnnAssign) and isinstance(st.target, ast.Name):
            return self.assign(st.target.id, self.ev(st.value))
        if isinstance(st, ast.If):
            c = self.b(self.ev(st.test))
            env0, pc0 = dict(self.env), self.pc
            self.pc = And(pc0, c); self.run(st.body); env_t = self.env
            self.env = dict(env0); self.pc = And(pc0, Not(c)); self.run(st.orelse); env_f = self.env
            self.pc = pc0
            self.env = {k: merge(c, env_t.get(k), env_f.get(k)) for k in set(env_t) | set(env_f)}
            return
        raise Unsupported(ast.dump(st)[:120])

def translate():
    src = textwrap.dedent(inspect.getsource(cminx.document_single_file))
    fdef = ast.parse(src).body[0]
    return fdef

if __name__ == "__main__":
    fdef = translate()
    rel, absroot, prefix, sep, outdir = Strings("rel absroot prefix sep outdir")
    no_prefix, no_out, ext_t, ext_m, root_is_dir = Bools("no_prefix no_out ext_t ext_m root_is_dir")
    root = Concat(absroot, StringVal("/"))
    file = Concat(root, rel)
    isdir_f = Function("isdir", StringSort(), BoolSort())
    settings = {"output.directory": Opt(no_out, outdir), "rst.prefix": Opt(no_prefix, prefix), "rst.module_path_separator": sep,
                "rst.file_extensions_in_titles": ext_t, "rst.file_extensions_in_modules": ext_m}
    def relpath(f, r):   # contract: f = r·rel with rel normalised/relative  =>  relpath(f, r) = rel
        return rel
    # directory mode: root = absroot + "/", file = root + rel
    it = Interp({"file": file, "root": root, "settings": settings, "__relpath__": relpath}, settings, lambda x: isdir_f(x))
    t = time.time(); it.run(fdef.body); print("translated in %.3fs; observations:" % (time.time() - t), [(k) for (_, k, _) in it.obs])
    (pc_d, _, (f_, title, module)) = [o for o in it.obs if o[1] == "Documenter"][0]; title = it.s(title); module = it.s(module)
    strip = lambda x: If(SuffixOf(StringVal(".cmake"), x), SubString(x, 0, Length(x) - 6), x)
    base = If(no_prefix, rel, Concat(prefix, sep, rel))
    spec_title = If(ext_t, base, strip(base)); spec_mod = If(ext_m, base, strip(base))
    wf = And(Not(Contains(rel, "//")), Not(SuffixOf("/", rel)), Length(rel) > 0, Not(Contains(rel, "\n")), Not(PrefixOf("/", rel)), PrefixOf("/", absroot), Not(SuffixOf("/", absroot)), rel != sep)
    s = Solver(); s.add(wf, isdir_f(root), pc_d, Or(self_title := title != spec_title, module != spec_mod))
    t = time.time(); print("C12.a dir mode names:", s.check(), "%.2fs" % (time.time() - t))
    # output filename under output dir
    w = [o for o in it.obs if o[1] == "write"][0]
    out_fn = w[2][0]
    i = LastIndexOf(rel, StringVal("."))
    stem = If(i < 0, StringVal(""), SubString(rel, 0, i))
    spec_out = Concat(outdir, StringVal("/"), stem, StringVal(".rst"))
    s = Solver(); s.set('timeout', 240000); s.add(wf, isdir_f(root), isdir_f(outdir), Not(no_out), Not(Contains(outdir, '//')), Length(outdir) > 0, Not(SuffixOf("/", outdir)), w[0],
                        Contains(SubString(rel, LastIndexOf(rel, StringVal("/")) + 1, Length(rel)), "."), out_fn != spec_out)
    t = time.time(); r = s.check(); print("C13.b output file name:", r, "%.2fs" % (time.time() - t))
    if r == sat: m = s.model(); print({str(d): m[d] for d in m.decls() if d.arity() == 0}, m.eval(out_fn), m.eval(spec_out))
