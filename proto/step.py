import sys; sys.setrecursionlimit(20000)
from typing import List, Tuple
from antlr4 import ParseTreeWalker
from cminx.aggregator import DocumentationAggregator, DefinitionCommand
from cminx.config import Settings
from cminx.documentation_types import *
from cminx.parser.CMakeParser import CMakeParser as P
from treebuild import file_ctx
import reshim

ID = P.Identifier
ARGS = {
 "function": ["f", "a", "b"], "macro": ["f", "a", "b"], "endfunction": [], "endmacro": [], "cmake_parse_arguments": ["x"],
 "set": ["V", "v"], "option": ["O", "help", "ON"], "cpp_class": ["K", "B"], "cpp_end_class": [],
 "cpp_attr": ["K", "at", "dv"], "cpp_member": ["m", "K", "int", "str"], "cpp_constructor": ["CTOR", "K", "int"],
 "ct_add_test": ["NAME", "t"], "ct_add_section": ["NAME", "s"], "add_test": ["NAME", "ct", "COMMAND", "x"], "message": ["hi"],
}
DOC = "#[[[\n# d\n#]]"
KIND = "@@KIND@@"

def build(defs, classes, pending):
    """gamma: abstract state -> real aggregator. defs[i]/classes[i]: True = has entry. pending: 0 none, 1 method, 2 test"""
    agg = DocumentationAggregator(Settings())
    dframes = []; cframes = []
    for i, e in enumerate(defs):
        d = FunctionDocumentation(f"g{i}", "", [], False) if e else None
        if d is not None: agg.documented.append(d)
        agg.definition_command_stack.append(DefinitionCommand(d) if e else DefinitionCommand(None, False)); dframes.append(d)
    for i, e in enumerate(classes):
        c = ClassDocumentation(f"C{i}", "", [], [], [], [], []) if e else None
        if c is not None:
            agg.documented.append(c)
        agg.documented_classes_stack.append(c); cframes.append(c)
    pend = None
    if pending == 1:
        pend = MethodDocumentation("pm", "", "C", ["int"], [], False)
        cframes[-1].members.append(pend)
    elif pending == 2:
        pend = TestDocumentation("pt", "", False); agg.documented.append(pend)
    agg.documented_awaiting_function_def = pend
    return agg, dframes, cframes, pend

def step(defs: List[bool], classes: List[bool], pending: int, documented: bool, case: int) -> bool:
    """
    pre: len(defs) <= 2 and len(classes) <= 2 and 0 <= pending <= 2 and 0 <= case <= 2
    pre: not (pending == 1 and (len(classes) == 0 or not classes[-1]))
    pre: not (pending != 0 and (KIND not in ("function", "macro") or documented))
    pre: not (KIND in ("endfunction", "endmacro") and len(defs) == 0)
    pre: not (KIND == "cpp_end_class" and len(classes) == 0)
    pre: not (KIND in ("cpp_attr", "cpp_member", "cpp_constructor") and len(classes) == 0)
    pre: not (documented and KIND in ("endfunction", "endmacro", "cpp_end_class", "cmake_parse_arguments"))
    post: _
    """
    agg, dframes, cframes, pend = build(defs, classes, pending)
    n0 = len(agg.documented)
    name = [KIND, KIND.upper(), KIND.capitalize()][case]
    args = ARGS[KIND]
    ParseTreeWalker().walk(agg, file_ctx([(DOC if documented else None, name, [(ID, a) for a in args])]))
    new = agg.documented[n0:]
    dst = [f.documentation for f in agg.definition_command_stack]
    cst = agg.documented_classes_stack
    doc = "d\n" if documented else ""
    # ---- delta
    exp_new = []; exp_d = list(dframes); exp_c = list(cframes); exp_pend = pend
    if KIND in ("function", "macro"):
        if pend is not None:
            if pend.params != args[2:] or pend.is_macro != (KIND == "macro"): return False
            exp_pend = None; exp_d.append(None)
        else:
            cls = FunctionDocumentation if KIND == "function" else MacroDocumentation
            e = cls(args[0], doc, args[1:], False); exp_new = [e]; exp_d.append("NEW")
    elif KIND in ("endfunction", "endmacro"): exp_d.pop()
    elif KIND == "cmake_parse_arguments":
        pass
    elif KIND == "cpp_class":
        e = ClassDocumentation(args[0], doc, args[1:], [], [], [], []); exp_new = [e]; exp_c.append("NEW")
    elif KIND == "cpp_end_class": exp_c.pop()
    elif KIND in ("cpp_member", "cpp_constructor"):
        if cframes[-1] is not None:
            m = MethodDocumentation(args[0], doc, args[1], args[2:], [], KIND == "cpp_constructor")
            lst = cframes[-1].constructors if KIND == "cpp_constructor" else cframes[-1].members
            if not (len(lst) == 1 and lst[0] == m): return False
            exp_pend = lst[0]
    elif KIND == "cpp_attr":
        if cframes[-1] is not None:
            if cframes[-1].attributes != [AttributeDocumentation(args[1], doc, args[0], args[2])]: return False
    elif KIND == "ct_add_test": exp_new = [TestDocumentation("t", doc, False)]; exp_pend = "NEW"
    elif KIND == "ct_add_section": exp_new = [SectionDocumentation("s", doc, False)]; exp_pend = "NEW"
    elif KIND == "add_test": exp_new = [CTestDocumentation("ct", doc, ["COMMAND", "x"])]
    elif KIND == "option": exp_new = [OptionDocumentation("O", doc, "bool", "ON", "help")]
    elif KIND == "set":
        if documented: exp_new = [VariableDocumentation("V", doc, VarType.STRING, "v")]
    else:
        if documented: exp_new = [GenericCommandDocumentation(KIND, doc, args)]
    # ---- compare
    if new != exp_new: return False
    if len(new) == 1 and type(new[0]) is not type(exp_new[0]): return False
    if len(dst) != len(exp_d) or len(cst) != len(exp_c): return False
    for got, exp in zip(dst, exp_d):
        if exp == "NEW":
            if got is not new[0]: return False
        elif got is not exp: return False
    for got, exp in zip(cst, exp_c):
        if exp == "NEW":
            if got is not new[0]: return False
        elif got is not exp: return False
    if KIND == "cpp_class" and cframes and cframes[-1] is not None and new[0] not in cframes[-1].inner_classes: return False
    if KIND == "cmake_parse_arguments":
        for i, f in enumerate(dframes):
            if f is not None and f.has_kwargs != (i == len(dframes) - 1): return False
    else:
        if any(f is not None and f.has_kwargs for f in dframes): return False
    got_p = agg.documented_awaiting_function_def
    if exp_pend == "NEW": return got_p is new[0]
    return got_p is exp_pend
