import time, z3
from z3 import *
import atn2re
D = 2
rules = atn2re.token_rules(D=D)
RS = ReSort(StringSort())
REAL = Range(Unit(CharVal(0)), Unit(CharVal(atn2re.MAXCP))); EOFC = Re(Unit(CharVal(atn2re.EOFCP)))
ANYC = Union(REAL, EOFC); ALLR = Star(REAL)
TAIL = Union(EOFC, Concat(Plus(REAL), EOFC), )            # non-empty rest of a well-formed input, up to and including EOF
def lit(s): return Re(StringVal(s))
def chs(s): return Union(*[lit(c) for c in s]) if len(s) > 1 else lit(s)
def notchs(s): return Intersect(REAL, Complement(chs(s)))
def MIN(r): return Intersect(r, Complement(Concat(r, Plus(ANYC))))
def eff(rx, ng):
    r = atn2re.to_z3(rx)
    return MIN(r) if ng else r
R = {name: eff(rx, ng) for (_, name, rx, ng) in rules}
order = [name for (_, name, _, _) in rules]
SKIP = ["Bracket_comment", "Line_comment", "Newline", "Space"]
ARG = ["Identifier", "Unquoted_argument", "Quoted_argument", "Bracket_argument"]
# ---------- reference (cmake-language(7))
alnum = Union(Range("A","Z"), Range("a","z"), Range("0","9"))
esc = Union(Concat(lit("\\"), Intersect(REAL, Complement(Union(alnum, lit(";"))))), lit("\\t"), lit("\\n"), lit("\\r"), lit("\;"))
eol = Union(Concat(lit("\r"), Option(lit("\n"))), lit("\n"))
def eqs(n): return lit("=" * n) if n else lit("")
def bopen(n): return Concat(lit("["), eqs(n), lit("["))
def bclose(n): return Concat(lit("]"), eqs(n), lit("]"))
any_bopen = Concat(lit("["), Star(lit("=")), lit("["))
def ref_bracket(n): return Concat(bopen(n), MIN(Concat(ALLR, bclose(n))))
ref = {}
ref["identifier"] = Concat(Union(Range("A","Z"), Range("a","z"), lit("_")), Star(Union(alnum, lit("_"))))
ref["unquoted"] = Intersect(Plus(Union(notchs(' \t\r\n()#"\\'), esc)), Complement(Concat(any_bopen, ALLR)))
ref["quoted"] = Concat(lit('"'), Star(Union(notchs('\\"'), esc, Concat(lit("\\"), eol))), lit('"'))
for n in range(D + 1): ref[f"bracket{n}"] = ref_bracket(n)
ref["lparen"] = lit("("); ref["rparen"] = lit(")")
ref["space"] = Plus(chs(" \t")); ref["newline"] = Plus(eol)
nonl = notchs("\r\n")
ref["line_comment"] = Concat(lit("#"), Intersect(Star(nonl), Complement(Concat(any_bopen, ALLR))), Union(eol, EOFC))
for n in range(D + 1):
    bc = Concat(lit("#"), ref_bracket(n))
    if n == 0: bc = Intersect(bc, Complement(Concat(lit("#[[["), ALLR)))     # '#[[[' is CMinx's doccomment opener
    ref[f"bracket_comment{n}"] = bc
dc = Concat(lit("#[[["), ALLR, lit("#]]"))
ref["doccomment"] = Intersect(dc, Complement(Concat(ALLR, lit("]]"), Plus(REAL))))     # ']]' only as the last two chars
# expected CMinx class and FOLLOW (first char of what may come next; then anything; always ends with EOF)
def follow(first): return Union(EOFC, Concat(first, Star(REAL), EOFC))
SEPC = chs(" \t\r\n()#")
spec = {
 "identifier": (ARG, follow(SEPC)), "unquoted": (ARG, follow(SEPC)), "quoted": (ARG, follow(SEPC)),
 "lparen": (["T__0"], follow(REAL)), "rparen": (["T__1"], follow(REAL)),
 "space": (SKIP, follow(notchs(" \t"))), "newline": (SKIP, follow(notchs("\r\n"))),
 "line_comment": (SKIP, Union(lit(""), follow(REAL))),      # its own terminator may already be EOF
 "doccomment": (["Docstring", "Module_docstring"], follow(chs(" \t\r\n"))),
}
for n in range(D + 1):
    spec[f"bracket{n}"] = (ARG, follow(SEPC)); spec[f"bracket_comment{n}"] = (SKIP, follow(REAL))
def U(rs): 
    rs = list(rs)
    return Empty(RS) if not rs else (rs[0] if len(rs) == 1 else Union(*rs))
nq = 0; bad = []
def empty(r, name):
    global nq
    s = Solver(); s.set("timeout", 60000); x = String("x"); s.add(InRe(x, r))
    t = time.time(); res = s.check(); nq += 1
    if res != unsat:
        w = s.model()[x].as_string() if res == sat else None
        bad.append((name, str(res), w)); print(f"{name:55s} {res} {time.time()-t:.2f}s {w!r}")
t0 = time.time()
for tn, (cls, fol) in spec.items():
    T = ref[tn]
    empty(Intersect(T, Complement(U(R[c] for c in cls))), f"coverage {tn}")
    prefne = Intersect(Plus(ANYC), Concat(ANYC, Star(ANYC)))
    # non-empty prefixes of FOLLOW: a prefix of (first . REAL* . EOF)  -- over-approximated by: starts like FOLLOW
    for rn in order:
        if tn == "line_comment":
            longer = Concat(T, Plus(ANYC))        # T already contains its terminator
            empty(Intersect(R[rn], longer, Concat(T, Union(Concat(REAL, Star(ANYC))))), f"longer {tn} by {rn}")
        else:
            first = {"space": notchs(" \t"), "newline": notchs("\r\n"), "lparen": REAL, "rparen": REAL, "doccomment": chs(" \t\r\n")}.get(tn, REAL if tn.startswith("bracket_comment") else SEPC)
            empty(Intersect(R[rn], Concat(T, Union(EOFC, Concat(first, Star(ANYC))))), f"longer {tn} by {rn}")
    for i, rn in enumerate(order):
        if rn in cls: continue
        earlier = [R[a] for a in order[:i] if a in cls]
        empty(Intersect(T, R[rn], Complement(U(earlier))), f"tie {tn} stolen by {rn}")
print(f"{nq} queries in {time.time()-t0:.1f}s; not-unsat: {len(bad)}")
