import sys; sys.setrecursionlimit(20000)
import copy, os
import confuse, confuse.yaml_util as yu
import cminx
_real_load = yu.load_yaml
DEFAULT_PATH = os.path.join(os.path.dirname(cminx.__file__), "config_default.yaml")
DEFAULTS = _real_load(DEFAULT_PATH); DEFAULTS["logging"] = {"version": 1}
class Env: user = None; sfile = None
def fake_load(filename, loader=None):
    if filename == DEFAULT_PATH: return copy.deepcopy(DEFAULTS)
    if filename.endswith("/s.yaml"): return Env.sfile
    return Env.user
yu.load_yaml = fake_load
captured = []
cminx.document = lambda input_file, settings: captured.append(settings)
DIRS = ["out", "/abs/out", "sub/o"]
def outdir(u_set: bool, u_i: int, s_set: bool, s_i: int, c_set: bool, c_i: int, rel_s: bool) -> bool:
    """
    output.directory from user file / -s file (/cfg/s.yaml) / -o; relative_to_config set in the -s file
    pre: 0 <= u_i < 3 and 0 <= s_i < 3 and 0 <= c_i < 3
    post: _
    """
    Env.user = {"output": {"directory": DIRS[u_i]}} if u_set else {}
    Env.sfile = {"output": ({"directory": DIRS[s_i]} if s_set else {}) | {"relative_to_config": rel_s}}
    captured.clear()
    args = ["in.cmake", "-s", "/cfg/s.yaml"] + (["-o", DIRS[c_i]] if c_set else [])
    cminx.main(args)
    got = captured[0].output.directory
    cwd = os.getcwd()
    if c_set: exp = os.path.join(cwd, DIRS[c_i])            # CLI source has no file: cwd
    elif s_set: exp = os.path.join("/cfg" if rel_s else cwd, DIRS[s_i])
    elif u_set: exp = os.path.join(USERDIR if rel_s else cwd, DIRS[u_i])
    else: exp = None
    return got == (os.path.normpath(exp) if exp is not None else None)
USERDIR = os.path.join(os.environ["XDG_CONFIG_HOME"], "cminx")
def wrongtype(which: int, as_int: bool) -> bool:
    """
    a non-bool value for a bool option is rejected
    pre: 0 <= which < 2
    post: _
    """
    bad = 1 if as_int else "yes"
    Env.user = {"input": {"recursive": bad}} if which == 0 else {}
    Env.sfile = {"input": {"recursive": bad}} if which == 1 else {}
    captured.clear()
    try:
        cminx.main(["in.cmake", "-s", "/cfg/s.yaml"])
    except confuse.ConfigError:
        return True
    return False
