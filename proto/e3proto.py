"""Scratch prototype of E3: symbolic interpretation of cminx_gen_rst (cmake/cminx.cmake) into z3 terms."""
import re, time, sys
from z3 import *
from antlr4 import InputStream, CommonTokenStream
from cminx.parser.CMakeLexer import CMakeLexer
from cminx.parser.CMakeParser import CMakeParser

class Unsupported(Exception): pass

def commands(path):
    p = CMakeParser(CommonTokenStream(CMakeLexer(InputStream(open(path, encoding="utf-8").read()))))
    tree = p.cmake_file()
    out = []
    def walk(n):
        if isinstance(n, CMakeParser.Command_invocationContext):
            args = []
            for c in n.children[2:-1]:
                if isinstance(c, CMakeParser.Single_argumentContext):
                    t = c.children[0].symbol
                    args.append((t.type, t.text))
                else: raise Unsupported("compound argument")
            out.append((n.Identifier().getText().lower(), args))
        elif hasattr(n, "children") and n.children:
            for c in n.children: walk(c)
    walk(tree)
    return out

REF = re.compile(r"\$\{([A-Za-z0-9_]+)\}")
class Env:
    """variables: name -> python list of z3 String elements (CMake list; elements assumed non-empty and ';'-free)"""
    def __init__(self, vars): self.vars = dict(vars)
    def expand(self, ttype, text):
        """-> list of argument strings (z3) produced by one source argument"""
        quoted = ttype == CMakeParser.Quoted_argument
        body = text[1:-1] if quoted else text
        if "\\" in body: raise Unsupported("escape in argument")
        parts = []; pos = 0
        for m in REF.finditer(body):
            if m.start() > pos: parts.append(("lit", body[pos:m.start()]))
            parts.append(("var", m.group(1))); pos = m.end()
        if pos < len(body): parts.append(("lit", body[pos:]))
        if "$" in "".join(p[1] for p in parts if p[0] == "lit"): raise Unsupported("unsupported reference syntax")
        if len(parts) == 1 and parts[0][0] == "var":
            v = self.vars.get(parts[0][1], [])
            if quoted:
                return [("joined", v)]          # one argument: elements joined by ';' (re-splits when stored in a list)
            return list(v)                       # unquoted: one argument per element, none if empty
        if any(p[0] == "var" for p in parts):
            raise Unsupported("mixed literal/reference argument")
        return [StringVal(body)]

def flatten(items):
    out = []
    for it in items:
        if isinstance(it, tuple) and it[0] == "joined": out.extend(it[1])
        else: out.append(it)
    return out
def as_arg(it):
    if isinstance(it, tuple) and it[0] == "joined":
        if len(it[1]) == 1: return it[1][0]
        if len(it[1]) == 0: return StringVal("")
        r = it[1][0]
        for e in it[1][1:]: r = Concat(r, StringVal(";"), e)
        return r
    return it


def interpret_paths(cmds, fname, actual_args, extra_vars, isdir):
    """DFS over symbolic if-conditions: returns list of (path_condition, execute_process calls)"""
    results = []
    def run(decisions):
        i = next(k for k, (n, a) in enumerate(cmds) if n == "function" and a and a[0][1] == fname)
        params = [a[1] for a in cmds[i][1][1:]]
        env = Env(extra_vars)
        for p, v in zip(params, actual_args): env.vars[p] = [v]
        env.vars["ARGC"] = [StringVal(str(len(actual_args)))]
        env.vars["ARGN"] = list(actual_args[len(params):])
        argc = len(actual_args)
        pc = []; calls = []; nd = 0
        skip = 0          # depth of disabled if-nesting
        stack = []        # per open if: was it taken?
        k = i + 1
        while cmds[k][0] != "endfunction":
            name, args = cmds[k]; k += 1
            if name == "if":
                if skip: skip += 1; continue
                words = [s_ for (t, s_) in args]
                if words[0] == "IS_DIRECTORY" and len(args) == 2:
                    (a_,) = env.expand(*args[1]); cond = isdir(as_arg(a_))
                    if nd < len(decisions): take = decisions[nd]
                    else:
                        run(decisions + [False]); take = True; decisions = decisions + [True]
                    nd += 1; pc.append(cond if take else Not(cond))
                elif len(words) == 3 and words[1] == "GREATER" and words[0] == "${ARGC}":
                    take = argc > int(words[2])
                else: raise Unsupported("if(" + " ".join(words) + ")")
                if take: stack.append(True)
                else: skip = 1
                continue
            if name == "endif":
                if skip: skip -= 1
                else: stack.pop()
                continue
            if name in ("else", "elseif"): raise Unsupported(name)
            if skip: continue
            if name == "set":
                vals = flatten([x for (t, s_) in args[1:] for x in env.expand(t, s_)])
                env.vars[args[0][1]] = [v for v in vals if not (is_string_value(v) and v.as_string() == "")]
            elif name == "list" and args and args[0][1] == "APPEND":
                var = args[1][1]
                env.vars[var] = env.vars.get(var, []) + flatten([x for (t, s_) in args[2:] for x in env.expand(t, s_)])
            elif name == "execute_process":
                KW = {"COMMAND", "OUTPUT_VARIABLE", "ERROR_VARIABLE", "RESULT_VARIABLE", "COMMAND_ERROR_IS_FATAL", "WORKING_DIRECTORY"}
                opts = {}; cmd = []; mode = None
                for (t, s_) in args:
                    if t != CMakeParser.Quoted_argument and s_ in KW: mode = s_; opts.setdefault(s_, []); continue
                    if mode == "COMMAND": cmd.extend(as_arg(x) for x in env.expand(t, s_))
                    elif mode is None: raise Unsupported("execute_process argument before keyword")
                    else: opts[mode].append(s_)
                calls.append((cmd, opts))
            else: raise Unsupported("command " + name)
        results.append((And(*pc) if pc else BoolVal(True), calls))
    run([])
    return results

if __name__ == "__main__":
    cmds = commands(sys.argv[1] if len(sys.argv) > 1 else "/repo/cmake/cminx.cmake")
    inp, outp, exe = Strings("input output exe")
    isdir_f = Function("IS_DIRECTORY", StringSort(), BoolSort())
    total = 0
    def eq(a, b): return BoolVal(False) if len(a) != len(b) else And(*[x == y for x, y in zip(a, b)])
    for k in range(0, 4):
        extra = [String(f"x{j}") for j in range(k)]
        paths = interpret_paths(cmds, "cminx_gen_rst", [inp, outp] + extra, {"CMINX_EXECUTABLE": [exe]}, lambda x: isdir_f(x))
        d = isdir_f(inp)
        spec_dir = [exe, inp, StringVal("-r")] + extra + [StringVal("-o"), outp]
        spec_nodir = [exe, inp] + extra + [StringVal("-o"), outp]
        # negated property: some path is feasible and (no/!=1 process call, or argv differs, or not fatal)
        bad = []
        for (pc, calls) in paths:
            ok = BoolVal(False)
            if len(calls) == 1 and calls[0][1].get("COMMAND_ERROR_IS_FATAL") == ["ANY"]:
                ok = If(d, eq(calls[0][0], spec_dir), eq(calls[0][0], spec_nodir))
            bad.append(And(pc, Not(ok)))
        s = Solver(); s.add(Or(*bad)); s.add(*[And(Length(x) > 0, Not(Contains(x, ";"))) for x in extra])
        t = time.time(); r = s.check(); total += 1
        print(f"|ARGN|={k}: paths={len(paths)} negated-spec {r} ({time.time()-t:.3f}s)", s.model() if r == sat else "")
    print("queries", total)
