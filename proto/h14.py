import sys; sys.setrecursionlimit(20000)
from antlr4 import ParseTreeWalker, InputStream
import cminx.documenter as D
from cminx.config import Settings
from cminx.parser.CMakeParser import CMakeParser as P
from treebuild import file_ctx
import reshim
D.FileStream = lambda f: InputStream("")
def _nn(x): return "\n" not in x and "\r" not in x and "]]" not in x

def e2e(t0: str, t1: str, u0: str) -> bool:
    """
    two documented commands (function f, set V): each doc text lands under its own directive, verbatim
    pre: len(t0) == 2 and len(t1) == 2 and len(u0) == 2 and _nn(t0) and _nn(t1) and _nn(u0)
    post: _
    """
    ind = "  "
    d1 = "#[[[\n" + ind + "# " + t0 + "\n" + ind + "# " + t1 + "\n" + ind + "#]]"
    d2 = "#[[[\n# " + u0 + "\n#]]"
    doc = D.Documenter("x.cmake", "T", "m", Settings())
    tree = file_ctx([(d1, "function", [(P.Identifier, "f"), (P.Identifier, "a")]), (None, "endfunction", []),
                     (d2, "set", [(P.Identifier, "V"), (P.Quoted_argument, '"q"')])])
    ParseTreeWalker().walk(doc.aggregator, tree)
    doc.process_docs(doc.aggregator.documented)
    exp = ("\n#\nT\n#\n" + "\n.. module:: m\n\n" + "\n.. function:: f(a)\n\n   " + t0 + "\n   " + t1 + "\n   \n\n"
           + "\n.. data:: V\n\n   " + u0 + "\n   \n\n   :Default value: q\n\n   :type: str\n\n")
    return doc.writer.to_text() == exp
