from typing import List
from cminx.aggregator import DocumentationAggregator

def _ok_text(t: str) -> bool:
    return "\n" not in t and "#]]" not in t and "\r" not in t

def check_clean(ind: str, texts: List[str]) -> str:
    """
    pre: len(ind) <= 2 and all(c in " \t" for c in ind)
    pre: len(texts) <= 2 and all(len(t) <= 3 and _ok_text(t) for t in texts)
    post: _ == "".join(t + "\n" for t in texts)
    """
    lines = ["#[[["] + [ind + ("# " + t if t else "#") for t in texts] + [ind + "#]]"]
    return DocumentationAggregator.clean_doc_lines(lines)
