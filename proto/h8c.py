import sys; sys.setrecursionlimit(20000)
from antlr4 import ParseTreeWalker
from cminx.aggregator import DocumentationAggregator
from cminx.config import Settings
from cminx.documentation_types import GenericCommandDocumentation
from cminx.parser.CMakeParser import CMakeParser as P
from treebuild import file_ctx
import reshim
SPECIAL = [n[len("process_"):] for n in dir(DocumentationAggregator) if n.startswith("process_")] + ["cpp_end_class", "endfunction", "endmacro"]
def anyname(name: str, documented: bool) -> bool:
    """
    pre: len(name) <= 24 and all(name != s for s in SPECIAL)
    post: _
    """
    agg = DocumentationAggregator(Settings())
    ParseTreeWalker().walk(agg, file_ctx([("#[[[\n# d\n#]]" if documented else None, name, [(P.Identifier, "a")])]))
    if documented:
        return len(agg.documented) == 1 and isinstance(agg.documented[0], GenericCommandDocumentation) and agg.documented[0].name == name
    return len(agg.documented) == 0
