"""Prototype: lexer ATN -> regex AST (state elimination), z3 + python-re backends."""
import sys, re as pyre, itertools
from antlr4.atn.Transition import Transition
from antlr4.atn.ATNState import DecisionState
from cminx.parser.CMakeLexer import CMakeLexer

MAXCP = 0x2FFFE
EOFCP = 0x2FFFF
atn = CMakeLexer.atn
NAMES = CMakeLexer.ruleNames

# ---- regex AST: ('eps',) ('empty',) ('set', ((lo,hi),...)) ('cat', a, b) ('alt', a, b) ('star', a)
EPS = ('eps',); EMPTY = ('empty',)
def cat(a, b):
    if a == EMPTY or b == EMPTY: return EMPTY
    if a == EPS: return b
    if b == EPS: return a
    return ('cat', a, b)
def alt(a, b):
    if a == EMPTY: return b
    if b == EMPTY: return a
    if a == b: return a
    return ('alt', a, b)
def star(a):
    if a in (EMPTY, EPS): return EPS
    if a[0] == 'star': return a
    return ('star', a)

def norm(ranges):
    out = []
    for lo, hi in sorted(ranges):
        if out and lo <= out[-1][1] + 1: out[-1] = (out[-1][0], max(out[-1][1], hi))
        else: out.append((lo, hi))
    return tuple(out)
def negate(ranges):
    out = []; cur = 0
    for lo, hi in norm(ranges):
        if lo > cur: out.append((cur, lo - 1))
        cur = hi + 1
    if cur <= MAXCP: out.append((cur, MAXCP))
    return tuple(out)

def label_ranges(t):
    k = t.serializationType
    if k == Transition.ATOM: return norm([(t.label_, t.label_)])
    if k == Transition.RANGE: return norm([(t.start, t.stop)])
    if k == Transition.SET: return norm([(r.start, r.stop - 1) for r in t.label.intervals])
    if k == Transition.NOT_SET: return negate([(r.start, r.stop - 1) for r in t.label.intervals])
    if k == Transition.WILDCARD: return ((0, MAXCP),)
    raise ValueError(k)

def rule_regex(r, depth, D, stack=()):
    """regex of lexer rule r; recursion (same rule on stack) bounded by D"""
    start, stop = atn.ruleToStartState[r], atn.ruleToStopState[r]
    # collect states of this rule reachable from start
    edges = {}  # (p,q) -> regex
    seen = {start.stateNumber}; work = [start]
    def add(p, q, rx):
        edges[(p, q)] = alt(edges.get((p, q), EMPTY), rx)
    while work:
        s = work.pop()
        if s is stop: continue
        for t in s.transitions:
            k = t.serializationType
            if k == Transition.RULE:
                callee = t.target.ruleIndex
                nd = depth
                if callee in stack + (r,):
                    nd = depth + 1
                rx = EMPTY if nd > D else rule_regex(callee, nd, D, stack + (r,))
                tgt = t.followState
            elif k in (Transition.EPSILON, Transition.ACTION):
                rx = EPS; tgt = t.target
            elif k == Transition.PREDICATE or k == Transition.PRECEDENCE:
                raise ValueError("predicate in lexer ATN unsupported")
            elif k == Transition.ATOM and t.label_ == -1:
                rx = ('set', ((EOFCP, EOFCP),)); tgt = t.target
            else:
                rr = label_ranges(t); tgt = t.target
                if rr and rr[0][0] == -1:
                    assert k == Transition.SET
                    rest = tuple(x for x in ((max(lo, 0), hi) for lo, hi in rr) if x[0] <= x[1])
                    rx = alt(('set', ((EOFCP, EOFCP),)), ('set', rest) if rest else EMPTY)
                else:
                    rx = ('set', rr)
            add(s.stateNumber, tgt.stateNumber, rx)
            if tgt.stateNumber not in seen:
                seen.add(tgt.stateNumber); work.append(tgt)
    S, F = start.stateNumber, stop.stateNumber
    states = [q for q in seen if q not in (S, F)]
    # eliminate, cheapest first
    for q in sorted(states, key=lambda q: sum(1 for e in edges if q in e)):
        loop = star(edges.pop((q, q), EMPTY))
        ins = [(p, rx) for (p, x), rx in edges.items() if x == q]
        outs = [(x, rx) for (p, x), rx in edges.items() if p == q]
        for (p, _) in ins: edges.pop((p, q))
        for (x, _) in outs: edges.pop((q, x))
        for (p, a) in ins:
            for (x, b) in outs:
                add(p, x, cat(a, cat(loop, b)))
    rx = edges.get((S, F), EMPTY)
    if (S, S) in edges: rx = cat(star(edges[(S, S)]), rx)
    assert (F, F) not in edges and (F, S) not in edges
    return rx

def nongreedy(r, seen=None):
    seen = seen or set()
    if r in seen: return False
    seen.add(r)
    for s in atn.states:
        if s is not None and s.ruleIndex == r:
            if isinstance(s, DecisionState) and s.nonGreedy: return True
            for t in s.transitions:
                if t.serializationType == Transition.RULE and nongreedy(t.target.ruleIndex, seen): return True
    return False

# ---- python-re backend
def cls(ranges):
    def e(c): return "\\U%08x" % c
    return "[" + "".join(e(lo) if lo == hi else e(lo) + "-" + e(hi) for lo, hi in ranges) + "]"
def to_py(rx):
    k = rx[0]
    if k == 'eps': return ""
    if k == 'empty': return "(?!)"
    if k == 'eof': return "\\Z"
    if k == 'set': return cls(rx[1])
    if k == 'cat': return to_py(rx[1]) + to_py(rx[2])
    if k == 'alt': return "(?:" + to_py(rx[1]) + "|" + to_py(rx[2]) + ")"
    if k == 'star': return "(?:" + to_py(rx[1]) + ")*"
# ---- z3 backend
def to_z3(rx, at_end=False):
    import z3
    S = z3.StringSort(); RS = z3.ReSort(S)
    k = rx[0]
    if k == 'eps': return z3.Re(z3.StringVal(""))
    if k == 'empty': return z3.Empty(RS)
    if k == 'eof': return z3.Re(z3.StringVal("")) if at_end else z3.Empty(RS)
    if k == 'set':
        parts = []
        for lo, hi in rx[1]:
            if lo > hi: continue
            parts.append(z3.Range(z3.Unit(z3.CharVal(lo)), z3.Unit(z3.CharVal(hi))) if lo != hi else z3.Re(z3.Unit(z3.CharVal(lo))))
        return parts[0] if len(parts) == 1 else z3.Union(*parts)
    if k == 'cat': return z3.Concat(to_z3(rx[1], at_end), to_z3(rx[2], at_end))
    if k == 'alt': return z3.Union(to_z3(rx[1], at_end), to_z3(rx[2], at_end))
    if k == 'star': return z3.Star(to_z3(rx[1], at_end))

def token_rules(D=2):
    """token (non-fragment) rules in priority order with regex and non-greedy flag"""
    mode0 = atn.modeToStartState[0]
    order = [t.target.ruleIndex for t in mode0.transitions]
    return [(r, NAMES[r], rule_regex(r, 0, D), nongreedy(r)) for r in order]

def model_first_token(rules, s):
    """predict (ruleindex, length) per model semantics; None = lexer error at pos 0"""
    best = None
    for (r, name, rx, ng) in rules:
        pat = pyre.compile(to_py(rx), pyre.S)
        lens = [n for n in range(1, len(s) + 1) if pat.fullmatch(s, 0, n)]
        if not lens: continue
        n = min(lens) if ng else max(lens)
        if best is None or n > best[1]: best = (r, n)
    return best

def size(rx): return 1 + sum(size(x) for x in rx[1:] if isinstance(x, tuple) and x and isinstance(x[0], str))
if __name__ == "__main__":
    for (r, name, rx, ng) in token_rules():
        print(r, name, "nongreedy" if ng else "", "size", size(rx))
