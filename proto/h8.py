import sys; sys.setrecursionlimit(20000)
import codecs, io, builtins
from antlr4 import FileStream, ParseTreeWalker
from cminx.aggregator import DocumentationAggregator
from cminx.config import Settings
from cminx.documentation_types import VariableDocumentation, VarType
from cminx.parser.CMakeParser import CMakeParser as P
from treebuild import file_ctx
import reshim

def decode_roundtrip(s: str) -> str:
    """
    pre: len(s) <= 2
    post: _ == s
    """
    data = s.encode("utf-8")
    real_open = builtins.open
    builtins.open = lambda *a, **k: io.BytesIO(data)
    try:
        return FileStream.readDataFrom(None, "x.cmake", "ascii")   # what Documenter does today (default encoding)
    finally:
        builtins.open = real_open

def set_single_unquoted(v: str) -> str:
    """
    set(X <v>) with v an unquoted argument (no whitespace, parens, #, unescaped quote or backslash handled coarsely)
    pre: 1 <= len(v) <= 3 and all(c not in ' \t\r\n()#' for c in v) and v[0] != '"'
    post: _ == v
    """
    agg = DocumentationAggregator(Settings())
    ParseTreeWalker().walk(agg, file_ctx([("#[[[\n# d\n#]]", "set", [(P.Identifier, "X"), (P.Unquoted_argument, v)])]))
    d = agg.documented[0]
    return d.value
