import time, z3
from z3 import *
import atn2re, patn
from cminx.parser.CMakeParser import CMakeParser as P
D = 2
rules = atn2re.token_rules(D=2)
REAL = Range(Unit(CharVal(0)), Unit(CharVal(atn2re.MAXCP))); EOFC = Re(Unit(CharVal(atn2re.EOFCP)))
ANYC = Union(REAL, EOFC)
def eff(rx, ng):
    r = atn2re.to_z3(rx)
    if ng: r = Intersect(r, Complement(Concat(r, Plus(ANYC))))
    return r
R = {name: eff(rx, ng) for (_, name, rx, ng) in rules}
tt2rule = {atn2re.atn.ruleToTokenType[r]: name for (r, name, _, _) in rules}
SKIPS = Star(Union(R["Bracket_comment"], R["Line_comment"], R["Newline"], R["Space"]))
def pz3(rx):
    k = rx[0]
    if k == 'tok':
        alts = [Concat(SKIPS, EOFC) if t == -1 else Concat(SKIPS, R[tt2rule[t]]) for t in rx[1]]
        return alts[0] if len(alts) == 1 else Union(*alts)
    if k == 'eps': return Re(StringVal(""))
    if k == 'empty': return Empty(ReSort(StringSort()))
    if k == 'cat': return Concat(pz3(rx[1]), pz3(rx[2]))
    if k == 'alt': return Union(pz3(rx[1]), pz3(rx[2]))
    if k == 'star': return Star(pz3(rx[1]))
ACCEPT = pz3(patn.prule(0, 0, D))
def chs(s): return Union(*[Re(StringVal(c)) for c in s]) if len(s) > 1 else Re(StringVal(s))
def sat1(r, name, extra=None):
    s = Solver(); x = String("x"); s.add(InRe(x, r)); s.set("timeout", 120000)
    t=time.time(); res = s.check(); dt=time.time()-t
    print(f"{name:50s}", "EMPTY" if res==unsat else res, f"{dt:.2f}s", repr(s.model()[x].as_string())[:80] if res==sat else "")
sat1(ACCEPT, "reachability: ACCEPT nonempty")
sat1(Intersect(ACCEPT, Concat(Star(REAL), Re("foo("), Star(REAL), Re('"'), Star(REAL), EOFC)), "reachability: accepted file with a quote")
noq = Intersect(REAL, Complement(chs('"\\')))
PRE = Star(REAL)
F1 = Concat(Re("f("), Star(Intersect(REAL, Complement(chs('"#\\')))), Re('"'), Star(Union(noq, Concat(Re("\\"), REAL))), EOFC)
sat1(Intersect(ACCEPT, F1), "F1 unterminated quote in arg list accepted?")
alnum = Union(Range("A","Z"), Range("a","z"), Range("0","9"))
F2 = Concat(Re("f("), Star(Intersect(REAL, Complement(chs('"#\\[')))), Re("\\"), Intersect(alnum, Complement(chs("trn"))), Star(REAL), EOFC)
sat1(Intersect(ACCEPT, F2), "F2 invalid escape in unquoted arg accepted?")
F3 = Concat(Re("f("), Star(Intersect(REAL, Complement(chs('"#\\[')))), Re("#[["), Intersect(Star(REAL), Complement(Concat(Star(REAL), Re("]]"), Star(REAL)))), EOFC)
sat1(Intersect(ACCEPT, F3), "F3 unterminated bracket comment accepted?")
