"""Prototype: parser ATN -> regex over token-type alphabet, depth-bounded recursion; compose with lexer regexes."""
from antlr4.atn.Transition import Transition
from cminx.parser.CMakeParser import CMakeParser
import atn2re
from atn2re import EPS, EMPTY, cat, alt, star
patn = CMakeParser.atn
PN = CMakeParser.ruleNames
def prule(r, depth, D, stack=()):
    start, stop = patn.ruleToStartState[r], patn.ruleToStopState[r]
    edges = {}; seen = {start.stateNumber}; work = [start]
    def add(p, q, rx): edges[(p, q)] = alt(edges.get((p, q), EMPTY), rx)
    while work:
        s = work.pop()
        if s is stop: continue
        for t in s.transitions:
            k = t.serializationType
            if k == Transition.RULE:
                callee = t.target.ruleIndex; nd = depth + (1 if callee in stack + (r,) else 0)
                rx = EMPTY if nd > D else prule(callee, nd, D, stack + (r,)); tgt = t.followState
            elif k in (Transition.EPSILON, Transition.ACTION): rx = EPS; tgt = t.target
            elif k == Transition.ATOM: rx = ('tok', (t.label_,)); tgt = t.target
            elif k == Transition.SET: rx = ('tok', tuple(sorted(x for iv in t.label.intervals for x in range(iv.start, iv.stop)))); tgt = t.target
            else: raise ValueError(("unsupported parser transition", k))
            add(s.stateNumber, tgt.stateNumber, rx)
            if tgt.stateNumber not in seen: seen.add(tgt.stateNumber); work.append(tgt)
    S, F = start.stateNumber, stop.stateNumber
    for q in sorted([q for q in seen if q not in (S, F)], key=lambda q: sum(1 for e in edges if q in e)):
        loop = star(edges.pop((q, q), EMPTY))
        ins = [(p, rx) for (p, x), rx in edges.items() if x == q]; outs = [(x, rx) for (p, x), rx in edges.items() if p == q]
        for (p, _) in ins: edges.pop((p, q))
        for (x, _) in outs: edges.pop((q, x))
        for (p, a) in ins:
            for (x, b) in outs: add(p, x, cat(a, cat(loop, b)))
    rx = edges.get((S, F), EMPTY)
    if (S, S) in edges: rx = cat(star(edges[(S, S)]), rx)
    return rx
def show(rx):
    k = rx[0]
    if k == 'tok': return "{" + ",".join(CMakeParser.symbolicNames[t] if t > 2 else ("EOF" if t == -1 else CMakeParser.literalNames[t]) for t in rx[1]) + "}"
    if k == 'eps': return "ε"
    if k == 'empty': return "∅"
    if k == 'cat': return show(rx[1]) + " " + show(rx[2])
    if k == 'alt': return "(" + show(rx[1]) + " | " + show(rx[2]) + ")"
    if k == 'star': return "(" + show(rx[1]) + ")*"
if __name__ == "__main__":
    print(show(prule(0, 0, 1)))
