import sys; sys.setrecursionlimit(20000)
from cminx.rstwriter import RSTWriter
from cminx.config import Settings
from cminx.documentation_types import FunctionDocumentation, MacroDocumentation

SHAPES = ["{}", "", ":f: {}", "* {}", "   {}", ".. x:: {}", "{}::"]
def spec_fn(name, p, doc_lines, kw, macro):
    out = "\n#\nT\n#\n"                                   # title frame for title "T"
    out += "\n.. function:: " + name + "(" + p + (" **kwargs" if kw else "") + ")\n"
    out += "\n"                                            # blank line between heading and content
    if macro:
        out += "\n   .. note:: This is a macro, and so does not introduce a new scope.\n\n"
    out += "\n".join("   " + l for l in doc_lines) + "\n\n"
    return out

S0, S1 = 2, 4
def fn_entry(name: str, p: str, w0: str, w1: str, kw: bool, macro: bool) -> bool:
    """
    pre: len(name) == 2 and len(p) == 2 and len(w0) == 2 and len(w1) == 2
    pre: all(chr(10) not in x for x in (name, p, w0, w1))
    post: _
    """
    lines = [SHAPES[S0].format(w0), SHAPES[S1].format(w1)]
    doc = "\n".join(lines) + "\n"
    e = (MacroDocumentation if macro else FunctionDocumentation)(name, doc, [p], kw)
    w = RSTWriter("T", settings=Settings())
    e.process(w)
    return w.to_text() == spec_fn(name, p, lines + [""], kw, macro)
