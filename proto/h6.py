import sys; sys.setrecursionlimit(20000)
import copy, os
from typing import Optional
import confuse, confuse.yaml_util as yu, confuse.sources as cs
import cminx

_real_load = yu.load_yaml
DEFAULT_PATH = os.path.join(os.path.dirname(cminx.__file__), "config_default.yaml")
DEFAULTS = _real_load(DEFAULT_PATH)
DEFAULTS["logging"] = {"version": 1}   # logging config is environment, not under test

class Env:
    user = None
    sfile = None
def fake_load(filename, loader=None):
    if filename == DEFAULT_PATH:
        return copy.deepcopy(DEFAULTS)
    if filename.endswith("/s.yaml"):
        return Env.sfile
    return Env.user
yu.load_yaml = fake_load

captured = []
def fake_document(input_file, settings):
    captured.append(settings)
cminx.document = fake_document
_isfile = os.path.isfile

def layering(u_set: bool, u_val: bool, s_set: bool, s_val: bool, cli: bool) -> bool:
    """
    input.recursive : CLI(-r) > -s file > user file > default(False)
    post: _
    """
    Env.user = {"input": {"recursive": u_val}} if u_set else {}
    Env.sfile = {"input": {"recursive": s_val}} if s_set else {}
    captured.clear()
    args = ["in.cmake", "-s", "/cfg/s.yaml"] + (["-r"] if cli else [])
    cminx.main(args)
    got = captured[0].input.recursive
    exp = True if cli else (s_val if s_set else (u_val if u_set else False))
    return got == exp
