#!/bin/bash
# Builds the overlay venv (offline): /venv's site-packages (cminx editable -> /repo/src, antlr4, confuse, pathspec) + crosshair-tool + z3-solver + cvc5 (1.4.0 wheel: second opinion on the regex queries).
cd "$(dirname "$0")" || exit 2
if [ -x .venv/bin/python ] && .venv/bin/python -c "import crosshair, z3, cminx, antlr4, cvc5" >/dev/null 2>&1; then exit 0; fi
(
  flock 9
  if [ -x .venv/bin/python ] && .venv/bin/python -c "import crosshair, z3, cminx, antlr4, cvc5" >/dev/null 2>&1; then exit 0; fi
  rm -rf .venv
  /venv/bin/python -m venv .venv || exit 2
  echo "import site; site.addsitedir('/venv/lib/python3.12/site-packages')" > .venv/lib/python3.12/site-packages/_base.pth
  PIP_NO_INDEX=1 .venv/bin/pip install -q --no-index --find-links /opt/veriftools/wheels crosshair-tool z3-solver cvc5 || exit 2
  .venv/bin/python -c "import crosshair, z3, cminx, antlr4, cvc5" || exit 2
) 9>.setup.lock
