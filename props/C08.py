import vf, steps

def build(tier):
    quick = tier == "quick"
    procs, special = steps.special_names()
    kinds = ["function", "macro", "set", "option", "cpp_class", "cpp_end_class", "cpp_attr", "cpp_member", "cpp_constructor",
             "ct_add_test", "ct_add_section", "add_test", "endfunction", "cmake_parse_arguments", "message"]
    # the ten include_undocumented_* flags symbolic; delta says: shown = documented or flag[kind]
    obs = steps.step_obligations("C08.a", kinds, tier, 1 if quick else 2, 2 if quick else 3, symflags=True, symargs=False)
    return dict(obligations=obs, explanation="x", assumptions=[])
