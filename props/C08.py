import vf, steps

def build(tier):
    quick = tier == "quick"
    procs, special = steps.special_names()
    kinds = ["function", "macro", "set", "option", "cpp_class", "cpp_end_class", "cpp_attr", "cpp_member", "cpp_constructor",
             "ct_add_test", "ct_add_section", "add_test", "endfunction", "cmake_parse_arguments", "message"]
    # the ten include_undocumented_* flags symbolic; delta says: shown = documented or flag[kind]
    md, mc = (1 if quick else 2), (2 if quick else 3)
    obs = steps.step_obligations("C08.a", [k for k in kinds if k != "cpp_class"], tier, md, mc, symflags=True, symargs=False)
    # implementing definitions that take nothing beyond the name and self (the pending declaration is consumed all the same)
    obs += steps.step_obligations("C08.a", ["function", "macro"], tier, md, mc, symflags=True, symargs=False, arities={"function": [2], "macro": [2]})
    # a cmake_parse_arguments call under two open definitions (documented outer, hidden inner): it marks the innermost frame only
    if quick:
        obs += steps.step_obligations("C08.a", ["cmake_parse_arguments"], tier, 2, 1, symflags=True, symargs=False)
    # known finding D3 (documented cpp_class with include_undocumented_cpp_class off): its region is subtracted from the cpp_class
    # shard, and isolated in a shard of its own that is expected to fail (prints KNOWN-FINDING; says so if it stops reproducing)
    obs += steps.step_obligations("C08.a", ["cpp_class"], tier, md, mc, symflags=True, symargs=False, region=("D3", "out"))
    obs += steps.step_obligations("C08.a", ["cpp_class"], tier, 0, 1, symflags=True, symargs=False, region=("D3", "in"))
    return dict(obligations=obs, explanation="x", assumptions=[])
