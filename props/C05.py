import vf, e2obs, steps, decode

def build(tier):
    D = 2 if tier == "quick" else 4
    obs = [decode.ob_decode('C05', 'C05.a'), e2obs.ob_validate(D, tier), e2obs.ob_munch("C05", D), e2obs.ob_parser("C05", D)]
    return dict(obligations=obs, explanation="x", assumptions=[])
