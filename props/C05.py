import vf, e2obs, steps, decode

def quick_(tier):
    return tier == 'quick'


def build(tier):
    D = 2 if tier == "quick" else 4
    obs = [decode.ob_decode('C05', 'C05.a'), e2obs.ob_validate(D, tier), e2obs.ob_munch("C05", D), e2obs.ob_parser("C05", D), e2obs.ob_module_anywhere("C05", D, "D11"), e2obs.ob_lone_cr("C05", D, "D19")]
    # C05.d the walk does not raise on valid programs: step shards incl. the symbolic command name and every by-name dispatch target
    procs, special = steps.special_names()
    obs += steps.step_obligations('C05.d', ['@other'] + [p for p in procs if p in ('generic_command',)], tier, 0, 0, symargs=False)
    obs += steps.step_obligations('C05.d', ['function', 'set', 'cpp_member', 'ct_add_test', 'add_test', 'option', 'cmake_parse_arguments', 'endfunction', 'cpp_class', 'cpp_end_class', 'macro', 'cpp_attr'], tier, 1, 1, symargs=True)
    obs.append(e2obs.ob_valid_witnesses('C05', big=not quick_(tier)))
    if not quick_(tier):
        obs.append(e2obs.ob_corpus())
        obs.append(e2obs.ob_second_opinion("C05", D))      # after all other z3 obligations of this run (they run in list order)
    return dict(obligations=obs, explanation="x", assumptions=[])
