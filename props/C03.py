import vf, steps, renders

def build(tier):
    quick = tier == "quick"
    kinds = ["function", "macro", "endfunction", "endmacro", "cmake_parse_arguments", "message"]
    # C03.a: definition stack with arbitrary kwargs flags per frame, opaque strip patterns (free regex shim), symbolic trigger/doc
    obs = steps.step_obligations("C03.a", kinds, tier, 3, 1, free=True, symkw=True, symargs=True, tl=1, dl=2,
                                 arities={"function": [1, 2, 4], "macro": [1, 2, 4], "endfunction": [0], "endmacro": [0],
                                          "cmake_parse_arguments": [2], "@other": [2]})
    # member/test implementations: pending declaration consumes the definition (member strip pattern, no kwargs marking of outer frames)
    # C03.b signature rendering: name(p1 ... pn[ **kwargs]), macro note iff macro
    for k in ("function", "macro"):
        for np_ in ((0, 1, 3) if quick else (0, 1, 2, 3, 4)):
            obs.append(renders.render_ob("C03.b", k, dict(np=np_), (0,), 2 if quick else 3, timeout=300 if quick else 1200))
    return dict(obligations=obs, explanation="x", assumptions=[])
