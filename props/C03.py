import vf, steps, renders, seqs

def build(tier):
    quick = tier == "quick"
    kinds = ["function", "macro", "endfunction", "endmacro", "cmake_parse_arguments", "message"]
    # C03.a: definition stack with arbitrary kwargs flags per frame, opaque strip patterns (free regex shim), symbolic trigger/doc
    obs = steps.step_obligations("C03.a", kinds, tier, 3, 1, free=True, symkw=True, symargs=True, tl=1, dl=2,
                                 arities={"function": [1, 2, 4], "macro": [1, 2, 4], "endfunction": [0], "endmacro": [0],
                                          "cmake_parse_arguments": [2], "@other": [2]})
    # member/test implementations: pending declaration consumes the definition (member strip pattern, no kwargs marking of outer frames)
    # C03.b signature rendering: name(p1 ... pn[ **kwargs]), macro note iff macro
    for k in ("function", "macro"):
        for np_ in ((0, 1, 3) if quick else (0, 1, 2, 3, 4)):
            obs.append(renders.render_ob("C03.b", k, dict(np=np_), (0,), 2 if quick else 3, timeout=300 if quick else 1200))
    # parameters as long as the marker text itself (a parameter may be spelled exactly '**kwargs'): the marker is still appended, once, last
    for k in ("function", "macro"):
        for np_ in ((2,) if quick else (1, 2, 3)):
            obs.append(renders.render_ob("C03.b", k, dict(np=np_), (), 8, timeout=300 if quick else 1200))
    obs += steps.step_obligations('C03.a', ['function', 'macro', 'cmake_parse_arguments', 'endmacro'], tier, 1, 1, free=True, symkw=True, symargs=True, tl=1, dl=2,
                                  deepd=8 if quick else 24, preargs=['q%d' % i for i in range(12 if quick else 40)],
                                  arities={'function': [2], 'macro': [2], 'cmake_parse_arguments': [2], 'endmacro': [0]})
    # C03.c whole sequences with the free regex shim and three DISTINCT patterns: the pattern of this kind is applied to each parameter,
    # whatever was stripped before in the same file (same parameter text in a function and a macro, member implementations, nesting)
    obs += seqs.seq_obligations('C03.c', ['function', 'macro', 'endfunction', 'endmacro', 'cmake_parse_arguments', 'cpp_class', 'cpp_member', 'message'], 3 if quick else 4, 1 if quick else 2, timeout=400 if quick else 2400, free=True)
    return dict(obligations=obs, explanation="x", assumptions=[])
