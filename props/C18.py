import vf, trees, importlib

def build(tier):
    quick = tier == "quick"
    obs = []
    base = dict(ext_t=False, ext_m=False, sep2=False, excl_root=False)
    # C18.a every effect under the output directory, for every placement of it (absolute, nested in the input tree, parent, relative)
    for sk in (["S5"] if quick else ["S5", "S2", "S3"]):
        for rec in (False, True):
            obs.append(trees.tree_ob("C18.a", sk, "tree", dict(base, recursive=rec, auto_ex=False, has_prefix=False), fixrev=True,
                                     timeout=400 if quick else 2400, note=" (all output placements)"))
    # C18.b stdout mode: exactly the pages the -o run writes, sorted within a directory, nothing written
    for sk in (["S1", "S2q"] if quick else ["S1", "S2", "S2b", "S3"]):
        for rec in (False, True):
            if sk == "S1" and rec:
                continue
            obs.append(trees.tree_ob("C18.b", sk, "stdout", dict(base, out_i=0, recursive=rec, auto_ex=False, has_prefix=False),
                                     timeout=400 if quick else 2400))
    # ... and the -o side of that equation on the same trees: the pages land at <relative path minus extension>.rst (dotted names, S1/S3)
    for (sk, rec) in ((("S1", False),) if quick else (("S1", False), ("S3", True))):
        obs.append(trees.tree_ob("C18.b", sk, "tree", dict(base, out_i=0, recursive=rec, auto_ex=False, has_prefix=False), fixrev=True, fixexcl=True,
                                 timeout=400 if quick else 2400, note=" (the -o run of the same trees)"))
    obs.append(trees.tree_ob("C18.b", "S1", "stdout", dict(ext_m=False, sep2=False, excl_root=False, out_i=0, recursive=False, auto_ex=True),
                             fixrev=True, timeout=400 if quick else 2400, note=" (prefix, extensions in titles)"))
    # the output directory in effect is the one requested: a relative -o / configured directory resolved against the directory current when main() runs
    C16 = importlib.import_module('C16')
    for fixb in (dict(use_s=False, c_set=True), dict(use_s=True, c_set=True, s_set=False), dict(use_s=True, c_set=True, s_set=True)):
        o = C16.ob('output', 'directory', 'outdir', 2, 300 if quick else 1800, fixb)
        o.name = o.name.replace('C16 outdir', 'C18.a requested output directory')
        obs.append(o)
    return dict(obligations=obs, explanation="x", assumptions=[])
