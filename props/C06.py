import vf, e2obs

def build(tier):
    quick = tier == "quick"
    D = 2 if quick else 4
    obs = [e2obs.ob_validate(D, tier), e2obs.ob_faults("C06", D), e2obs.ob_parser("C06", D, label="C06.b")]
    obs.append(vf.CH("C06.c lexer and parser errors are raised as exceptions", "c06_listener.py", {}, timeout=120,
                     encodes=["cminx.documenter.Documenter.__init__ (listener wiring of self.lexer and self.parser)",
                              "cminx.parser.ParserErrorListener.syntaxError", "antlr4 Recognizer.getErrorListenerDispatch / ProxyErrorListener"],
                     symbolic="line, column, message, exception present or None, recogniser (lexer | parser)",
                     bound="line, column in 0..3 and message <= 3 code points (the listener formats them into its exception; formatting symbolic ints enumerates them)"))
    return dict(obligations=obs, explanation="x", assumptions=[])
