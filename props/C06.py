import vf, e2obs, trees

def build(tier):
    quick = tier == "quick"
    D = 2 if quick else 4
    obs = [e2obs.ob_validate(D, tier), e2obs.ob_faults("C06", D), e2obs.ob_parser("C06", D, label="C06.b")]
    obs.append(vf.CH("C06.c lexer and parser errors are raised as exceptions", "c06_listener.py", {}, timeout=120,
                     encodes=["cminx.documenter.Documenter.__init__ (listener wiring of self.lexer and self.parser)",
                              "cminx.parser.ParserErrorListener.syntaxError", "antlr4 Recognizer.getErrorListenerDispatch / ProxyErrorListener"],
                     symbolic="line, column, message, exception present or None, recogniser (lexer | parser)",
                     bound="line, column in 0..3 and message <= 3 code points (the listener formats them into its exception; formatting symbolic ints enumerates them)"))
    obs.append(e2obs.ob_fault_witnesses('C06', D))
    # C06.d an exception while processing a file leaves document(): nothing is written or printed for that file
    for (sk, fix) in ((('S2q' if quick else 'S2'), dict(out_i=0)), ('S1', dict(out_i=0)), ('S3', dict(out_i=1))):
        obs.append(trees.tree_ob('C06.d', sk, 'fail', dict(fix, sep2=False, ext_t=False, ext_m=False, has_prefix=False, excl_root=False, auto_ex=False), fixrev=True, fixexcl=quick, timeout=400 if quick else 1800))
    obs.append(e2obs.ob_second_opinion("C06", D))      # after all other z3 obligations of this run (they run in list order)
    return dict(obligations=obs, explanation="x", assumptions=[])
