import vf, e2obs, importlib, e4, trees
C20 = importlib.import_module("C20")

ENC = ["cminx.aggregator.DocumentationAggregator.enterDocumented_module", "DocumentationAggregator.clean_doc_lines",
       "cminx.documenter.Documenter.process_docs (module entry insertion, title override)", "cminx.documentation_types.ModuleDocumentation.process",
       "cminx.rstwriter.Heading.build_heading_string, RSTWriter.title setter, RSTWriter.to_text"]


def mod_ob(has_name, nl, blens, l, follow_doc, timeout):
    nb = len(blens)
    return vf.CH(f"C12.c @module name={'yes' if has_name else 'no'}(len {nl}) body line lengths={blens} following-command-documented={follow_doc}",
                 "c12_module.py", dict(HAS_NAME=has_name, NAMELEN=nl, BLENS=tuple(blens), L=l, FOLLOW_DOC=follow_doc, NCP=nl + sum(blens) + l),
                 timeout=timeout, encodes=ENC,
                 symbolic="module name (printable, no separators), body lines, the following command's doc line, page title (2 chars), header character",
                 bound=f"name {nl} chars, body lines of lengths {blens} (0 = empty line)")


def build(tier):
    quick = tier == "quick"
    t = 300 if quick else 1800
    D = 2 if quick else 4
    obs = [e4.ob_names('C12')]
    for has_name in (True, False):
        for fd in (True, False):
            obs.append(mod_ob(has_name, 2 if quick else 4, (0, 2, 0, 1) if quick else (0, 3, 0, 0, 2), 2 if quick else 3, fd, t))
    obs.append(mod_ob(True, 3, (), 1, True, t))
    obs.append(mod_ob(True, 2, (2, 2), 2, False, t))
    # C12.b title framing (over/underline = first header char x len(title); re-framed on change): writer scripts with longer titles
    for name in ("empty", "flat"):
        obs.append(C20.ob(name, C20.SCRIPTS[name], 2, 6 if quick else 10, timeout=t))
    obs[-1].name = obs[-1].name.replace("C20.a", "C12.b"); obs[-2].name = obs[-2].name.replace("C20.a", "C12.b")
    # default prefix = the input directory's own name, also when another directory was documented before with the same settings object
    # titles and module names through the real document_single_file in directory mode: '.cmake' is dropped at the END only (a prefix, a
    # directory or a base name may contain it), separator '.' and '::', extensions kept or dropped
    obs.append(trees.tree_ob('C12.a', 'S3', 'tree', dict(excl_root=False, out_i=0, recursive=True, auto_ex=False, has_prefix=True), fixexcl=True, fixrev=True,
                             prefixes=("my.cmake_p", "p.cmake"), timeout=400 if quick else 2400, note=" (prefixes containing '.cmake')"))
    obs.append(trees.tree_ob('C12.a', 'S2q' if quick else 'S2', 'hist', dict(ext_t=False, ext_m=False, sep2=False, excl_root=False, out_i=0, recursive=True, auto_ex=False), fixexcl=True, fixrev=True, timeout=t))
    # C12.d '#[[[ @module ...' is lexed as Module_docstring (wins the tie over Docstring), so the parser cannot attach it to a command
    obs.append(e2obs.ob_validate(D, tier))
    obs.append(e2obs.ob_canon("C12", D, module=True, label="C12.d"))
    return dict(obligations=obs, explanation="x", assumptions=[])
