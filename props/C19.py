import vf, e3

def build(tier):
    return dict(obligations=[e3.ob_argv("C19")], explanation="x", assumptions=[])
