import vf, trees, prog_kinds

def build(tier):
    quick = tier == "quick"
    obs = []
    base = dict(ext_t=False, ext_m=False, sep2=False, excl_root=False, out_i=0)
    # C17.a relational: other listing order / other working directory + relative input path => identical writes
    for sk in (["S1r", "S2q"] if quick else ["S1r", "S1", "S2", "S2b", "S3"]):
        for rec in (False, True):
            if sk in ("S1", "S1r") and rec:
                continue
            obs.append(trees.tree_ob("C17.a", sk, "rel", dict(base, recursive=rec, auto_ex=False, has_prefix=False), fixexcl=(sk not in ("S1", "S1r")),
                                     timeout=600 if quick else 2400))
    obs.append(trees.tree_ob("C17.a", "S6", "rel", dict(base, recursive=True, auto_ex=False, has_prefix=False), fixexcl=True, timeout=400 if quick else 2400,
                             note=" (names differing only in letter case)"))
    obs.append(trees.tree_ob("C17.a", "S1", "rel", dict(base, recursive=False, auto_ex=True), fixexcl=True, timeout=400 if quick else 2400, note=" (prefix)"))
    # documenting another input (directory or lone file) before, in the same run with the same Settings object
    for (sk, rec) in ((("S1", False), ("S2q", True)) if quick else (("S1", False), ("S2", True), ("S3", True), ("S2b", True))):
        obs.append(trees.tree_ob("C17.a", sk, "hist", dict(base, recursive=rec, auto_ex=False), fixexcl=True, fixrev=True, timeout=400 if quick else 2400,
                                 note=" (other input processed first with the same settings object)"))
    # a directory reachable under two names (symbolic link to a sibling, follow_symlinks on): independent of which name is listed first
    obs.append(trees.tree_ob("C17.a", "S2q" if quick else "S2", "symrel", dict(base, recursive=True, auto_ex=False, has_prefix=False), fixexcl=True, fixrev=True,
                             timeout=400 if quick else 2400, note=" (symbolic link to a sibling directory, links followed, two listing orders)"))
    # the input path is a symbolic link to the tree: everything is named after the path as given, wherever the link points
    obs.append(trees.tree_ob("C17.a", "S2q" if quick else "S2", "link", dict(base, recursive=True, auto_ex=False), fixexcl=True, fixrev=True,
                             timeout=400 if quick else 2400, note=" (input path is a symbolic link to the tree)"))
    # C17.c / C12 lone file: title and module name do not depend on the absolute location (base name only)
    obs.append(trees.tree_ob("C17.c", "S3", "file", dict(ext_t=False, ext_m=False, excl_root=False, recursive=False, auto_ex=False, out_i=0),
                             fixrev=True, timeout=400 if quick else 2400, note=" (lone input file)"))
    ks = list(range(len(prog_kinds.KINDS)))
    for k1 in (ks[::3] if quick else ks):
        obs.append(vf.CH(f"C17.b frame lemma, first command {prog_kinds.KINDS[k1]}: processing leaves global state and the passed Settings untouched; reprocessing gives the same page",
                         "c17_frame.py", dict(KINDS=tuple(prog_kinds.KINDS), K1=k1), timeout=400 if quick else 2400,
                         encodes=["cminx.documenter.Documenter.__init__/process_docs", "cminx.aggregator.DocumentationAggregator (all processors)",
                                  "cminx.documentation_types.*.process", "cminx.rstwriter.RSTWriter.__init__ (heading_level_chars)"],
                         symbolic="kind of the second command (12), both documented flags, custom header characters, title",
                         bound="two command units per file; three pages rendered per path"))
    # C17.d hash seed: set iteration order inside the cminx modules is chosen by the harness (hc.VSet); the exclude patterns reach the
    # matcher in the same order under both order models
    import importlib
    C16 = importlib.import_module('C16')
    for extra in ((), ('-r', '-p', 'P')):
        o = C16.ob('input', 'exclude_filters', 'exclseed', 2 if quick else 3, 300 if quick else 1800, extra=extra)
        o.name = o.name.replace('C16 exclseed', 'C17.d hash seed (set iteration order model): order of the exclude patterns handed to the matcher')
        o.symbolic += "; the iteration order of every set/frozenset built inside the cminx modules (insertion order in one run, reversed in the other)"
        obs.append(o)
    return dict(obligations=obs, explanation="x", assumptions=[])
