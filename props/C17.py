import vf, trees

def build(tier):
    quick = tier == "quick"
    obs = []
    base = dict(ext_t=False, ext_m=False, sep2=False, excl_root=False, out_i=0)
    # C17.a relational: other listing order / other working directory + relative input path => identical writes
    for sk in (["S1", "S2"] if quick else ["S1", "S2", "S2b", "S3"]):
        for rec in (False, True):
            if sk == "S1" and rec:
                continue
            obs.append(trees.tree_ob("C17.a", sk, "rel", dict(base, recursive=rec, auto_ex=False), timeout=400 if quick else 2400))
    # C17.c / C12 lone file: title and module name do not depend on the absolute location (base name only)
    obs.append(trees.tree_ob("C17.c", "S3", "file", dict(ext_t=False, ext_m=False, excl_root=False, recursive=False, auto_ex=False, out_i=0),
                             fixrev=True, timeout=400 if quick else 2400, note=" (lone input file)"))
    return dict(obligations=obs, explanation="x", assumptions=[])
