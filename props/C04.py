import vf, e2obs, steps, seqs

ENC = ["cminx.aggregator.DocumentationAggregator.clean_doc_lines", "enterDocumented_command", "process_<kind>", "*.process", "Documenter.process_docs",
       "Paragraph.build_text_string", "Directive.to_text", "RSTWriter.to_text"]


def tup(n):
    return "Tuple[" + ", ".join(["int"] * max(1, n)) + "]"


def lay(mode, n, l, k, leader, kind, timeout, lens=None, k2=None, open_="", pre=""):
    lens = tuple(lens) if lens is not None else (l,) * n
    k2 = k if k2 is None else k2
    return vf.CH(f"C04.{'d re-indent' if mode == 'indent' else 'e CRLF'} {kind} line lengths={lens} indent={k}->{k2} leader={leader}" + (f" opening line '#[[[{open_}'" if open_ else "") + (f" +{len(pre)} concrete indent characters" if pre else ""), "c04_layout.py",
                 dict(MODE=mode, N=len(lens), L=l, K=k, K2=k2, LEADER=leader, KIND=kind, OPEN=open_, PRE=pre, NCP=max(1, sum(lens)), LENS=lens, IT=tup(max(k, k2))), timeout=timeout, encodes=ENC,
                 symbolic="body line texts (arbitrary code points), the characters (space/tab) of both indentations",
                 bound=f"{n} body lines of {l} chars, indent width {k}; opening line holds " + (f"'#[[[{open_}'" if open_ else "only '#[[['"))


def build(tier):
    quick = tier == "quick"
    D = 2 if quick else 4
    t = 300 if quick else 1800
    obs = [e2obs.ob_validate(D, tier),
           e2obs.ob_munch("C04", D, label="C04.a/b")]
    for (n, l, k, leader, kind) in ([(2, 2, 2, True, "function"), (2, 2, 1, False, "set"), (1, 3, 3, True, "cpp_member")] if quick else
                                    [(3, 3, 2, True, "function"), (2, 2, 2, False, "set"), (2, 4, 3, True, "cpp_member"), (1, 3, 4, False, "generic"), (3, 2, 1, True, "cpp_class")]):
        obs.append(lay("indent", n, l, k, leader, kind, t))
    # blocks with physically empty lines (not indented, no leader), e.g. before a literal block inside an indented member doccomment
    obs.append(lay("indent", 3, 2, 2, True, "cpp_member", t, lens=(2, 0, 2), k2=0))
    obs.append(lay("indent", 2, 2, 3, True, "function", t, k2=1))
    # text on the opening line, block re-indented from 8 characters to none (and 7 -> 2): the opening line is not part of the indentation
    obs.append(lay("indent", 2, 2, 1, True, "function", t, k2=0, open_=" Opening words", pre=" " * 7))
    obs.append(lay("indent", 1, 2, 1, True, "cpp_member", t, k2=2, open_=" x", pre=chr(9) * 6))
    obs.append(lay("indent", 3, 2, 2, True, "cpp_member", t, lens=(2, 0, 2)))
    obs.append(lay("indent", 3, 2, 1, False, "function", t, lens=(1, 0, 1)))
    for (n, l, k, leader, kind) in ([(2, 2, 0, True, "function"), (1, 2, 2, True, "set")] if quick else
                                    [(3, 2, 0, True, "function"), (2, 3, 0, True, "function"), (2, 3, 2, True, "set"), (2, 3, 1, True, "cpp_attr"), (2, 2, 0, False, "macro")]):
        obs.append(lay("crlf", n, l, k, leader, kind, t))
    # C04.c letter case of command names and C04.f token positions: symbolic in every inductive-step shard (oracle ignores them)
    obs += steps.step_obligations("C04.c/f", ["function", "macro", "set", "cpp_class", "cpp_end_class", "endmacro", "ct_add_test", "cpp_member", "option"], tier, 1, 1, symargs=False)
    # C04.b arguments spread over several lines (symbolic line/column of every argument token): same generic entry
    for st in ([['s', ['s', 's'], 's'], ['s', ['s', ['s']], ['s'], 's']]):
        nleaves = lambda x: sum(nleaves(y) if isinstance(y, list) else 1 for y in x)
        ntok = lambda x: sum((2 + ntok(y)) if isinstance(y, list) else 1 for y in x)
        for ml in (False, True):
            obs.append(vf.CH(f"C04.b generic invocation {st}, {'one token per line' if ml else 'one line'}", 'c02_generic.py',
                             dict(MULTILINE=ml, STRUCT=st, L=2, NCP=nleaves(st) * 2, NTOK=ntok(st), PT='Tuple[' + ', '.join(['int'] * ntok(st)) + ']'), timeout=t,
                             encodes=['cminx.aggregator.DocumentationAggregator.process_generic_command', 'GenericCommandDocumentation.process'],
                             symbolic='argument texts; line and column of every argument token', bound=f'argument structure {st}'))
    # C04.f token positions: whole sequences with symbolic start lines (several commands may share a line): output independent of them
    obs += seqs.seq_obligations("C04.f", ["option", "function", "endfunction", "set", "cpp_class", "cpp_end_class"] if quick else
                                ["option", "function", "endfunction", "set", "cpp_class", "cpp_end_class", "cpp_attr", "add_test", "message", "ct_add_test"],
                                3, 1, timeout=400 if quick else 2400)
    return dict(obligations=obs, explanation="x", assumptions=[])
