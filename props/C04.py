import vf, e2obs, steps, seqs

ENC = ["cminx.aggregator.DocumentationAggregator.clean_doc_lines", "enterDocumented_command", "process_<kind>", "*.process", "Documenter.process_docs",
       "Paragraph.build_text_string", "Directive.to_text", "RSTWriter.to_text"]


def tup(n):
    return "Tuple[" + ", ".join(["int"] * max(1, n)) + "]"


def lay(mode, n, l, k, leader, kind, timeout):
    return vf.CH(f"C04.{'d re-indent' if mode == 'indent' else 'e CRLF'} {kind} lines={n}x{l} indent={k} leader={leader}", "c04_layout.py",
                 dict(MODE=mode, N=n, L=l, K=k, LEADER=leader, KIND=kind, NCP=n * l, IT=tup(k)), timeout=timeout, encodes=ENC,
                 symbolic="body line texts (arbitrary code points), the characters (space/tab) of both indentations",
                 bound=f"{n} body lines of {l} chars, indent width {k}; opening line holds only '#[[['")


def build(tier):
    quick = tier == "quick"
    D = 2 if quick else 4
    t = 300 if quick else 1800
    obs = [e2obs.ob_validate(D, tier),
           e2obs.ob_munch("C04", D, label="C04.a/b")]
    for (n, l, k, leader, kind) in ([(2, 2, 2, True, "function"), (2, 2, 1, False, "set"), (1, 3, 3, True, "cpp_member")] if quick else
                                    [(3, 3, 2, True, "function"), (2, 2, 2, False, "set"), (2, 4, 3, True, "cpp_member"), (1, 3, 4, False, "generic"), (3, 2, 1, True, "cpp_class")]):
        obs.append(lay("indent", n, l, k, leader, kind, t))
    for (n, l, k, leader, kind) in ([(2, 2, 0, True, "function"), (1, 2, 2, True, "set")] if quick else
                                    [(3, 3, 0, True, "function"), (2, 3, 2, True, "set"), (2, 3, 1, True, "cpp_attr"), (2, 2, 0, False, "macro")]):
        obs.append(lay("crlf", n, l, k, leader, kind, t))
    # C04.c letter case of command names and C04.f token positions: symbolic in every inductive-step shard (oracle ignores them)
    obs += steps.step_obligations("C04.c/f", ["function", "set", "cpp_class", "cpp_end_class", "endmacro", "ct_add_test", "option"], tier, 1, 1, symargs=False)
    # C04.f token positions: whole sequences with symbolic start lines (several commands may share a line): output independent of them
    obs += seqs.seq_obligations("C04.f", ["option", "function", "endfunction", "set", "cpp_class", "cpp_end_class"] if quick else
                                ["option", "function", "endfunction", "set", "cpp_class", "cpp_end_class", "cpp_attr", "add_test", "message", "ct_add_test"],
                                3, 1, timeout=400 if quick else 2400)
    return dict(obligations=obs, explanation="x", assumptions=[])
