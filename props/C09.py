import vf, steps, renders

def build(tier):
    quick = tier == "quick"
    kinds = ["cpp_class", "cpp_end_class", "cpp_attr", "cpp_member", "cpp_constructor", "function", "macro", "message"]
    obs = steps.step_obligations("C09.a", kinds, tier, 1, 3 if quick else 4, symargs=True,
                                 arities={"cpp_class": [1, 3], "cpp_end_class": [0], "cpp_attr": [2, 3], "cpp_member": [2, 3, 5],
                                          "cpp_constructor": [2, 4], "function": [1, 2, 3, 5], "macro": [3], "@other": [1]})
    obs += steps.step_obligations('C09.a', ['cpp_class', 'cpp_end_class', 'cpp_attr', 'cpp_member', 'cpp_constructor', 'function'], tier, 1, 1, symargs=True,
                                  deepc=12 if quick else 30, deepd=2, preargs=['t%d' % i for i in range(8 if quick else 30)])
    # member strip pattern: free regex shim with three distinct opaque patterns; the implementing definition may be a function or a macro
    obs += steps.step_obligations('C09.a', ['function', 'macro'], tier, 1, 1, free=True, symargs=True, tl=1, dl=2, arities={'function': [3, 5], 'macro': [3, 5]})
    shapes = [dict(bases=0, ctors=[], methods=[], attrs=[], inner=0),
              dict(bases=2, ctors=[], methods=[(0, 0, False)], attrs=[False], inner=0),
              dict(bases=1, ctors=[(1, 1, False)], methods=[(2, 2, False), (1, 2, True)], attrs=[True, False], inner=2),
              dict(bases=0, ctors=[(2, 1, False)], methods=[(1, 3, False), (0, 2, True)], attrs=[], inner=1),
              dict(bases=0, ctors=[], methods=[(3, 3, False)], attrs=[True], inner=0)]
    for sh in (shapes if not quick else shapes[:4]):
        obs.append(renders.render_ob("C09.b", "class", sh, (0,), 2 if quick else 3, timeout=400 if quick else 1800))
    # the implementing definition carries a doccomment of its own: the member still shows that definition's parameters and macro note
    C01 = __import__("C01")
    for (a_, b_) in ((("cpp_member!", "macro"), ("cpp_constructor!", "macro")) if quick else
                     (("cpp_member!", "macro"), ("cpp_member!", "function"), ("cpp_constructor!", "function"), ("cpp_constructor!", "macro"))):
        obs.append(vf.CH(f"C09.c {a_[:-1]} implemented by a DOCUMENTED {b_}: signature and macro note of the member, both doccomments on the page", "c01_pair.py",
                         dict(K1=a_, K2=b_, LENS1=(1,), LENS2=(2,), IND="", NCP=3, PAD=0), timeout=240 if quick else 1200, encodes=C01.ENC_TEXT,
                         symbolic="every character of both doccomments", bound="containment of the member's signature line, its macro note and both paragraphs, not page equality"))
    return dict(obligations=obs, explanation="x", assumptions=[])
