import vf, steps, seqs, e2obs

def build(tier):
    quick = tier == "quick"
    procs, special = steps.special_names()
    kinds = ["function", "macro", "endfunction", "endmacro", "cmake_parse_arguments", "set", "option", "cpp_class", "cpp_end_class",
             "cpp_attr", "cpp_member", "cpp_constructor", "ct_add_test", "ct_add_section", "add_test", "@other"]
    kinds += [p for p in procs if p not in kinds]          # every name the dispatch-by-name can find gets its own shard
    fixed = [k for k in kinds if k != "@other"]
    obs = steps.step_obligations("C02.a", fixed, tier, 2 if quick else 3, 2 if quick else 3, symargs=True)
    obs += steps.step_obligations("C02.a", ["@other"], tier, 0 if quick else 1, 0 if quick else 1, symargs=False)
    # deep nesting / long argument lists at no path cost: concrete frames below the symbolic ones, concrete arguments among the symbolic ones
    obs += steps.step_obligations("C02.a", ["function", "endfunction", "cmake_parse_arguments", "cpp_class", "cpp_end_class", "cpp_member", "cpp_attr", "set"], tier, 1, 1,
                                  symargs=True, deepd=8 if quick else 24, deepc=8 if quick else 24, preargs=["p%d" % i for i in range(12 if quick else 40)])
    def nleaves(st):
        return sum(nleaves(x) if isinstance(x, list) else 1 for x in st)

    def ntok(st):
        return sum((2 + ntok(x)) if isinstance(x, list) else 1 for x in st)
    for st in ([["s", ["s", "s"], "s"], [["s"], "s"], ["s", ["s", ["s"]], ["s"], "s"]] if quick else
               [["s", ["s", "s"], "s"], [["s"], "s"], ["s", ["s", ["s"]], ["s"], "s"], [[], "s"], [["s", ["s", ["s", "s"]]]], ["s", "s", "s", ["s"]]]):
      for ml in (False, True):
        obs.append(vf.CH(f"C02.a generic invocation, argument structure {st}, {'one token per line' if ml else 'one line'}", "c02_generic.py", dict(MULTILINE=ml, STRUCT=st, L=2 if quick else 3, NCP=nleaves(st) * (2 if quick else 3), NTOK=max(1, ntok(st)), PT="Tuple[" + ", ".join(["int"] * max(1, ntok(st))) + "]"),
                         timeout=300 if quick else 1200, encodes=["cminx.aggregator.DocumentationAggregator.process_generic_command", "enterDocumented_command",
                                                                  "GenericCommandDocumentation.process", "Documenter.process_docs", "RSTWriter.to_text"],
                         symbolic="the text of every argument; line and column of every argument token (arguments spread over several lines)", bound=f"argument structure {st} (lists = parenthesised groups)"))
    # C02.d grammar layer: dangling doccomments / annotation comments produce no parser event other than bracket_doccomment / nothing
    D = 2 if quick else 4
    obs.append(e2obs.ob_validate(D, tier))
    obs.append(e2obs.ob_parser("C02", D, label="C02.d"))
    obs.append(e2obs.ob_munch("C02", D, only=lambda tn: tn.startswith(("line_comment", "bracket_comment", "space", "newline", "doccomment")), label="C02.d separators"))
    # C02.e / C02.c whole sequences from the initial state: cross-command state, walker event order, rendering order and kinds
    ks = ["function", "endfunction", "set", "cpp_class", "cpp_end_class", "cpp_member", "ct_add_test", "message", "cmake_parse_arguments", "macro", "endmacro", "cpp_attr", "option", "add_test"]
    if quick:
        obs += seqs.seq_obligations("C02.e", ks[:8], 3, 1, timeout=400)
    else:
        # path budget: K^N x 2^N documented flags x well-formed fraction; 8 kinds x N=4 and 14 kinds x N=3 each fit in ~20 min on 16 cores
        obs += seqs.seq_obligations("C02.e", ks[:8], 4, 2, timeout=2400)
        obs += seqs.seq_obligations("C02.e", ks, 3, 1, timeout=2400)
    # long files: 40 (thorough: 120) concrete documented commands of mixed kinds, then symbolic ones
    mix = [('set', True), ('option', True), ('message', True), ('add_test', True), ('function', True), ('endfunction', False)]
    pre = [mix[i % len(mix)] for i in range(42 if quick else 120)]
    obs += seqs.seq_obligations('C02.e', ['function', 'endfunction', 'set', 'option', 'ct_add_test', 'message'], 2, 1, timeout=400 if quick else 2400, pre=pre)
    return dict(obligations=obs, explanation="x", assumptions=[])
