import vf, steps

def build(tier):
    quick = tier == "quick"
    procs, special = steps.special_names()
    kinds = ["function", "macro", "endfunction", "endmacro", "cmake_parse_arguments", "set", "option", "cpp_class", "cpp_end_class",
             "cpp_attr", "cpp_member", "cpp_constructor", "ct_add_test", "ct_add_section", "add_test", "@other"]
    kinds += [p for p in procs if p not in kinds]          # every name the dispatch-by-name can find gets its own shard
    fixed = [k for k in kinds if k != "@other"]
    obs = steps.step_obligations("C02.a", fixed, tier, 2 if quick else 3, 2 if quick else 3, symargs=True)
    obs += steps.step_obligations("C02.a", ["@other"], tier, 0 if quick else 1, 0 if quick else 1, symargs=False)
    return dict(obligations=obs, explanation="x", assumptions=[])
