import vf, steps, seqs

ENC = ["cminx.aggregator.DocumentationAggregator.process_ct_add_test", "process_ct_add_section", "process_add_test",
       "enterDocumented_command / enterCommand_invocation", "cminx.documentation_types.TestDocumentation.process",
       "SectionDocumentation.process", "CTestDocumentation.process", "Documenter.process_docs", "RSTWriter / Directive.to_text"]


def ob(cmd, slots, L, documented=True, timeout=300):
    n = sum(1 for s in slots if s in ("n", "x")) + 2 * sum(1 for s in slots if s == "g")
    return vf.CH(f"C11.a {cmd}({' '.join(slots)}) documented={documented} L={L}", "c11_test.py",
                 dict(CMD=cmd, SLOTS=tuple(slots), L=L, DOCUMENTED=documented, NCP=n * L), timeout=timeout, encodes=ENC,
                 symbolic="the test name and every further argument (arbitrary text without separators; may equal the name, 'name', 'expectfail', or contain a keyword)",
                 bound=f"argument pattern {slots}; every symbolic argument exactly {L} chars")


def build(tier):
    quick = tier == "quick"
    t = 300 if quick else 1800
    pats_ct = [["NAME", "n"], ["NAME", "n", "EF"], ["EF", "NAME", "n"], ["x", "NAME", "n"], ["NAME", "n", "x", "EF"], ["NAME", "n", "x", "x"]]
    pats_at = [["NAME", "n", "x"], ["NAME", "n", "x", "x"], ["x", "NAME", "n", "x"], ["NAME", "n", "x", "x", "x"], ["x", "x", "NAME", "n"]]
    obs = []
    for L in ((2, 4) if quick else (2, 4, 5, 10)):
        for cmd in ("ct_add_test", "ct_add_section"):
            for p in (pats_ct if (not quick or L == 4) else pats_ct[:3]):
                obs.append(ob(cmd, p, L, timeout=t))
        for p in (pats_at if (not quick or L == 4) else pats_at[:2]):
            if L >= 10 and sum(1 for x in p if x in ("n", "x")) > 3:
                continue          # four pieces of 10 symbolic characters each did not finish in 1800 s (stated, not claimed)
            obs.append(ob("add_test", p, L, timeout=t))
    # a parenthesised group among the further arguments of add_test: shown, in place
    obs.append(ob("add_test", ["NAME", "n", "x", "g", "x"], 2, timeout=t))
    obs.append(ob("add_test", ["g", "NAME", "n"], 2, timeout=t))
    obs.append(ob("ct_add_test", ["NAME", "n", "x"], 2, documented=False, timeout=t))
    obs.append(ob("add_test", ["NAME", "n", "x"], 2, documented=False, timeout=t))
    # C11.b nesting of sections in a test's function: inductive steps on pending / definition stack
    obs += steps.step_obligations("C11.b", ["ct_add_test", "ct_add_section", "function", "endfunction"], tier, 2 if quick else 3, 1,
                                  symargs=True)
    # C11.b whole sequences: tests/sections next to documented set()/generic commands and their implementing functions, documented or not
    obs += seqs.seq_obligations('C11.b', ['ct_add_test', 'ct_add_section', 'function', 'endfunction', 'set', 'message', 'add_test'], 3 if quick else 4, 1, timeout=400 if quick else 2400)
    mix = [('ct_add_section', True), ('function', False), ('endfunction', False), ('add_test', True), ('set', True)]
    pre = [('ct_add_test', True), ('function', False)] + [mix[i % len(mix)] for i in range(60 if quick else 150)] + [('endfunction', False)]
    obs += seqs.seq_obligations('C11.b', ['ct_add_test', 'ct_add_section', 'add_test', 'function', 'endfunction'], 2, 1, timeout=400 if quick else 2400, pre=pre)
    return dict(obligations=obs, explanation="x", assumptions=[])
