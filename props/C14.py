import vf, trees

def build(tier):
    quick = tier == "quick"
    obs = []
    base = dict(ext_t=False, ext_m=False, out_i=0, excl_root=False)
    # toctrees: subdirectories excluded by pattern, auto-excluded, empty after exclusion, nested below directories without cmake files
    for sk in (["S2q", "S4"] if quick else ["S2", "S2b", "S3", "S4", "S5"]):
        for ae in (False, True):
            obs.append(trees.tree_ob("C14", sk, "tree", dict(base, recursive=True, auto_ex=ae, has_prefix=False, sep2=False),
                                     timeout=400 if quick else 2400))
    # index titles: prefix given / defaulted, separator '.' / '::', recursive and not
    obs.append(trees.tree_ob("C14 titles", "S4", "tree", dict(base, auto_ex=False), fixrev=True, fixexcl=True, timeout=400 if quick else 2400,
                             prefixes=("P", "P.", "p::", "a b", "my.cmake_p"), note=" (prefix menu incl. prefixes ending in the separator)"))
    # beyond the quantifier (directories holding only mixed-case *.CMAKE files under auto-exclusion etc.): closure only
    for sk in (["S2b"] if quick else ["S2b", "S2", "S4"]):
        obs.append(trees.tree_ob("C14 closure", sk, "closure", dict(base, recursive=True, auto_ex=True, has_prefix=False, sep2=False), fixrev=True,
                                 fixp=True, timeout=400 if quick else 2400, note=" (every toctree entry has a target, every page is reachable)"))
    # index titles name the input directory itself, also when another directory was documented before with the same settings object
    obs.append(trees.tree_ob('C14 titles', 'S2q' if quick else 'S2', 'hist', dict(base, recursive=True, auto_ex=False, sep2=False), fixexcl=True, fixrev=True, timeout=400 if quick else 2400))
    # the input path is a symbolic link to the tree: index titles and the default prefix name the path as given
    obs.append(trees.tree_ob("C14 titles", "S2q" if quick else "S2", "link", dict(base, recursive=True, auto_ex=False, sep2=False), fixrev=True, fixexcl=True,
                             timeout=400 if quick else 2400, note=" (input path is a symbolic link to the tree)"))
    # a symbolic link to a directory inside the tree (links not followed): not walked, hence not listed
    obs.append(trees.tree_ob("C14", "S2q" if quick else "S2", "symdir", dict(base, recursive=True, has_prefix=False, sep2=False), fixrev=True, fixexcl=True,
                             timeout=400 if quick else 2400, note=" (a symbolic link to a sibling directory inside the tree, follow_symlinks off)"))
    # known finding D15 (kept visible): a module named index.cmake and its directory's index.rst are written to one path
    o = trees.tree_ob("C14 index.cmake next to the directory index", "S7", "tree", dict(base, recursive=False, auto_ex=False, has_prefix=False, sep2=False),
                      fixrev=True, fixexcl=True, timeout=400 if quick else 2400, note=" (known finding D15 expected)")
    o.finding = "D15"
    obs.append(o)
    if not quick:
        obs.append(trees.tree_ob("C14 presence", "S2", "tree", dict(base, recursive=True, auto_ex=True, has_prefix=False, sep2=False),
                                 fixp=False, fixrev=True, timeout=2400))
    return dict(obligations=obs, explanation="x", assumptions=[])
