import vf

ENC = ["cminx.rstwriter.RSTWriter.text/field/bulleted_list/enumerated_list/directive/section/to_text/__str__/clear/title (setter)",
       "Directive.option/to_text/build_heading/format_arguments", "get_indents", "Paragraph, Field, RSTList, Option, DirectiveHeading, Heading"]


def count(nodes):
    n = 0
    for nd in nodes:
        k = nd[0]
        if k == "text": n += nd[1]
        elif k == "field": n += 2
        elif k in ("bullets", "enum"): n += nd[1]
        elif k == "dir": n += 2 + 2 * nd[1] + count(nd[3])
        elif k == "section": n += 1 + count(nd[1])
    return n


def tup(n):
    return "Tuple[" + ", ".join(["int"] * max(1, n)) + "]"


def ob(name, script, L, TL, timeout=300, fill="", during=False):
    return vf.CH(f"C20.a script {name} L={L} |title|={TL}" + (f" +{len(fill)}-char filler" if fill else "") + (" serialised after every step" if during else ""), "c20_writer.py",
                 dict(SCRIPT=script, L=L, TL=TL, NCP=count(script) * L, TT=tup(TL), FILL=fill, DURING=during), timeout=timeout, encodes=ENC,
                 symbolic="every string passed to the writer API (names, arguments, option names/values, paragraph lines incl. leading spaces, list items), two titles, two header characters",
                 bound=f"construction script {script!r}; pieces of exactly {L} chars; titles of {TL} chars")


TXT1, TXT2 = ("text", 1), ("text", 2)
SCRIPTS = {
    "empty": [],
    "flat": [TXT2, ("field",), ("bullets", 2), ("enum", 2)],
    "dir1": [("dir", 1, False, [TXT2, ("field",)])],
    "dir-empty": [("dir", 2, False, []), TXT1],
    "dir-late-options": [("dir", 2, True, [TXT1])],
    "dir2": [("dir", 0, False, [TXT1, ("dir", 1, False, [TXT2, ("bullets", 2)]), ("field",)])],
    "dir3": [("dir", 1, False, [("dir", 0, False, [("dir", 1, True, [TXT2, ("enum", 2), ("field",)])])]), TXT1],
    "siblings": [("dir", 0, False, [TXT1]), ("dir", 0, False, [("bullets", 1)]), TXT1],
    "section": [TXT1, ("section", [TXT1, ("dir", 1, False, [TXT1])])],
}


def chain(depth, opts=1):
    """a chain of nested directives `depth` levels deep, each with options, a paragraph and (innermost) a field and a list"""
    node = [TXT2, ("field",), ("bullets", 2)]
    for d in range(depth):
        node = [("dir", opts, d % 2 == 1, [TXT1] + node)]
    return node


def build(tier):
    quick = tier == "quick"
    obs = []
    # deep nesting (sizes beyond the small scripts, still one symbolic character per piece)
    for depth in ((12,) if quick else (12, 40)):
        obs.append(ob(f"chain-depth-{depth}", chain(depth), 1, 2, timeout=300 if quick else 1800))
    obs.append(ob("wide", [("dir", 0, False, [TXT1] * 1)] * (12 if quick else 40) + [("bullets", 12 if quick else 40), ("enum", 12 if quick else 40)], 1, 2, timeout=300 if quick else 1800))
    for name, sc in SCRIPTS.items():
        obs.append(ob(name, sc, 2 if quick else 3, 3 if quick else 5, timeout=300 if quick else 1800))
    # histories: the document is serialised (to_text and str) after every construction step; later serialisations are unaffected
    for name in (("dir2", "dir3", "section") if quick else ("flat", "dir1", "dir-late-options", "dir2", "dir3", "siblings", "section")):
        obs.append(ob(name, SCRIPTS[name], 1 if quick else 2, 2, timeout=300 if quick else 1800, during=True))
    obs.append(ob("dir2", SCRIPTS["dir2"], 1, 3, timeout=300 if quick else 1800, fill="z" * 150))
    if not quick:
        obs.append(ob("dir3-long", SCRIPTS["dir3"], 6, 8, timeout=2400))
    return dict(obligations=obs, explanation="x", assumptions=[])
