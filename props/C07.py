import vf, renders, c07b, importlib

KINDS = [("function", dict(np=1)), ("macro", dict(np=1)), ("variable", dict(vtype="str")), ("variable", dict(vtype="UNSET")),
         ("option", dict(default=False)), ("generic", dict(np=1)), ("ctest", dict(np=1)), ("test", {}), ("section", {}),
         ("module", {}),
         ("class", dict(bases=1, ctors=[(1, 1, False)], methods=[(1, 1, True)], attrs=[True], inner=2))]


def build(tier):
    quick = tier == "quick"
    obs = []
    # a covering set of doc-shape pairs: each of the 7 shapes in first and in second position
    pairs = [(i, (i + 1) % 7) for i in range(7)]
    if quick:
        for j, (k, sh) in enumerate(KINDS):
            obs.append(renders.render_ob("C07.a", k, sh, pairs[j % 7], 2, timeout=400))
        obs.append(renders.render_ob("C07.a", "function", dict(np=0), (), 2, timeout=400))
    else:
        for (k, sh) in KINDS:
            for pr in pairs:
                obs.append(renders.render_ob("C07.a", k, sh, pr, 1, timeout=1800))
        for (k, sh) in KINDS[:3]:
            obs.append(renders.render_ob("C07.a", k, sh, (0, 2, 4), 2, timeout=2400))
        obs.append(renders.render_ob("C07.a", "function", dict(np=0), (), 1, timeout=400))
    # long pieces (names, parameters, doc words of 120+ characters): no wrapping / truncation anywhere in the renderers
    for (k, sh) in (KINDS if not quick else [KINDS[0], KINDS[4], KINDS[10]]):
        obs.append(renders.render_ob('C07.a', k, sh, (0, 4), 1, timeout=400 if quick else 1800, fill='w' * 120))
    # module doccomment bodies (indented continuation lines, nested directive bodies) reach the module directive with their own indentation
    C12 = importlib.import_module('C12')
    for (hn, bl) in (((True, (2, 3, 0, 2)),) if quick else ((True, (2, 3, 0, 2)), (False, (3, 3)), (True, (0, 4)))):
        o = C12.mod_ob(hn, 2, bl, 2, True, 300 if quick else 1200)
        o.name = o.name.replace('C12.c', 'C07.a module doccomment body')
        obs.append(o)
    # C07.c no renderer input can gain a line break on the way from the source: values/help texts with the escape sequences \\n \\t \\\\
    # (no line break in the source argument) reach the page as written, on one line, inside their entry
    C10 = importlib.import_module('C10')
    for (cmd, cls, doc) in (("set", ["quo_nl"], True), ("set", ["quo_nl", "id"], True), ("option", ["quo_nl", "id"], True)):
        o = C10.ob(cmd, cls, 2, doc, timeout=300 if quick else 1200)
        o.name = o.name.replace('C10.a', 'C07.c escape sequences stay text (no line break enters a field)')
        obs.append(o)
    # C07.d the white space that nests a body under its directive inside a doccomment (spaces or a TAB right after the leader's one
    # space / right after '#') survives cleaning: clean_doc_lines on canonical blocks == the specification text, every character symbolic
    tup = lambda n: "Tuple[" + ", ".join(["int"] * max(1, n)) + "]"
    for (n, k, l) in (((2, 2, 3),) if quick else ((2, 2, 3), (3, 2, 3))):
        obs.append(vf.CH(f"C07.d doccomment lines keep their own leading white space (clean canonical n={n} k<={k} L<={l})", "c01_clean.py",
                         dict(N=n, K=k, L=l, LEADERLESS=False, FIRSTLINE=False, NOSPACE=False, NCP=n * l, MT=tup(n), IT=tup(k), PAD=0, PADIND=""),
                         timeout=240 if quick else 2400, encodes=["cminx.aggregator.DocumentationAggregator.clean_doc_lines"],
                         symbolic="indent in {' ','\\t'}^<=k; n texts of <=L arbitrary code points (a tab or spaces first included); all lengths symbolic", bound=f"n={n}, k<={k}, L<={l}"))
    obs.append(vf.CH("C07.d doccomment lines written '#'+text keep a leading TAB or other white space (clean n=2 k<=2 L<=3, no space after the leader)", "c01_clean.py",
                     dict(N=2, K=2, L=3, LEADERLESS=False, FIRSTLINE=False, NOSPACE=True, NCP=6, MT=tup(2), IT=tup(2), PAD=0, PADIND=""),
                     timeout=240 if quick else 2400, encodes=["cminx.aggregator.DocumentationAggregator.clean_doc_lines"],
                     symbolic="as above; the first character of a text is anything but a space", bound="n=2, k<=2, L<=3"))
    obs.append(c07b.ob_docutils())
    return dict(obligations=obs, explanation="x", assumptions=[])
