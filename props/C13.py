import vf, trees

def build(tier):
    quick = tier == "quick"
    base = dict(sep2=False, ext_t=False, ext_m=False, has_prefix=False, out_i=0)
    obs = []
    for sk in (["S1", "S4"] if quick else ["S1", "S2", "S2b", "S3", "S4", "S5"]):
        for rec in (False, True):
            for ae in (False, True):
                obs.append(trees.tree_ob("C13", sk, "tree", dict(base, recursive=rec, auto_ex=ae), timeout=400 if quick else 2400))
    # C13.b output file names: dots, dashes, three directory levels, every output location, prefix, separator
    obs.append(trees.tree_ob("C13.b", "S3", "tree", dict(sep2=False, ext_t=False, ext_m=False, excl_root=False, recursive=True, auto_ex=False),
                             fixrev=True, fixexcl=quick, timeout=400 if quick else 2400, note=" (output locations x prefix)"))
    # output directory nested in the input tree next to siblings whose names start with its name (docs / docs-old), every output placement
    obs.append(trees.tree_ob('C13', 'S5', 'tree', dict(sep2=False, ext_t=False, ext_m=False, has_prefix=False, excl_root=False, recursive=True, auto_ex=False), fixrev=True, fixexcl=quick,
                             timeout=400 if quick else 2400, note=' (all output placements)'))
    # the input path is a symbolic link to the tree (pages, indexes and what the matcher is asked about are named after the path as given)
    obs.append(trees.tree_ob("C13", "S4", "link", dict(base, recursive=True, auto_ex=True), fixrev=True, timeout=400 if quick else 2400,
                             note=" (input path is a symbolic link to the tree)"))
    # sizes beyond the small skeletons, at no path cost (no exclusions, listing order as written): deep chains, wide directories
    for sk in (('CH12', 'W20') if quick else ('CH12', 'CH30', 'W20', 'W60')):
        obs.append(trees.tree_ob('C13', sk, 'tree', dict(base, recursive=True, excl_root=False), fixrev=True, fixexcl=True, timeout=400 if quick else 2400, note=' (large tree)'))
    return dict(obligations=obs, explanation="x", assumptions=[])
