import vf

ENC = ["cminx.aggregator.DocumentationAggregator.process_set", "DocumentationAggregator.process_option",
       "DocumentationAggregator.enterDocumented_command / enterCommand_invocation", "cminx.documentation_types.VariableDocumentation.process",
       "OptionDocumentation.process", "cminx.documenter.Documenter.process_docs", "RSTWriter / Directive.to_text"]


def ob(cmd, cls, L, documented=True, timeout=300):
    return vf.CH(f"C10.a {cmd}({', '.join(cls) or 'no value'}) documented={documented} L={L}", "c10_set.py",
                 dict(CMD=cmd, CLS=tuple(cls), L=L, DOCUMENTED=documented, NCP=L + sum(0 if c == "quo_empty" else L for c in cls) + 1), timeout=timeout, encodes=ENC,
                 symbolic="variable name, the text of every value (token class fixed per shard), one doc character",
                 bound=f"{len(cls)} values of classes {cls}; symbolic part of each piece exactly {L} chars")


def build(tier):
    quick = tier == "quick"
    L = 2 if quick else 3
    t = 300 if quick else 1800
    single = ["id", "unq", "unq_esc", "quo", "quo_esc", "quo_nl", "quo_empty", "bra", "ref"]
    obs = [ob("set", [], L, timeout=t)] + [ob("set", [c], L, timeout=t) for c in single]
    lists = [["id", "quo"], ["quo", "quo"], ["unq_esc", "bra"], ["ref", "id", "quo_esc"]] if quick else \
            [[a, b] for a in single for b in ("id", "quo", "unq_esc")] + [["ref", "id", "quo_esc"], ["quo", "quo", "quo"], ["bra", "unq", "quo_empty"]]
    obs += [ob("set", c, L, timeout=t) for c in lists]
    obs += [ob("option", ["quo"], L, timeout=t), ob("option", ["quo", "id"], L, timeout=t), ob("option", ["quo_esc", "unq"], L, False, timeout=t)]
    # the same option name declared twice (second declaration undocumented, e.g. inside if(WIN32)): two entries
    obs += [ob("option_twice", ["quo", "id", "id"], 1, True, timeout=t), ob("option_twice", ["quo", "id"], 1, False, timeout=t)]
    obs += [ob("set_twice", ["quo", "id"], 1, True, timeout=t), ob("set_twice", ["id", "id", "id"], 1, True, timeout=t)]
    # C10.b rendering: type, default and help are stated whatever the doccomment says (a doccomment that has a ':type:' field of its own)
    import renders
    for (k, sh) in (("variable", dict(vtype="str")), ("variable", dict(vtype="list")), ("variable", dict(vtype="UNSET")), ("option", dict(default=True)), ("option", dict(default=False))):
        obs.append(renders.render_ob("C10.b", k, sh, (7, 0), 2, timeout=t))
    # C10.c 'documented or not, at any position in a module': option()/set() steps under arbitrary open definition and class frames
    import steps
    obs += steps.step_obligations("C10.c", ["option", "set"], tier, 2, 1, symargs=True)
    if not quick:
        obs += [ob("option", ["quo"], L, False, timeout=t), ob("set", ["quo"], 4, timeout=2400), ob("set", ["unq_esc"], 4, timeout=2400)]
    return dict(obligations=obs, explanation="x", assumptions=[])
