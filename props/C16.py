import vf

ENC = ["cminx.main (argparse destinations, Configuration, set_file, set_args, get(template), all_contents)", "cminx.config.config_template",
       "cminx.config.dict_to_settings", "confuse.Configuration / RootView / Subview / templates (as_template, Optional, String, StrSeq, Filename, bool)"]
CLI = {("output", "directory"): "-o", ("input", "recursive"): "-r", ("rst", "prefix"): "-p", ("input", "exclude_filters"): "-e"}


def options():
    """every option of the input/output/rst sections, from the real template (a new option is not missed)"""
    import confuse
    from cminx.config import config_template
    t = config_template()
    out = []
    for sec in ("input", "output", "rst"):
        for opt, tpl in t[sec].items():
            if tpl is bool:
                mode = "bool"
            elif (sec, opt) == ("input", "exclude_filters"):
                mode = "excl"
            elif (sec, opt) == ("output", "directory"):
                mode = "outdir"
            elif isinstance(tpl, confuse.StrSeq):
                mode = "strseq"
            else:
                mode = "str"
            out.append((sec, opt, mode))
    return out


LONG = {"-o": "--output", "-r": "--recursive", "-p": "--prefix", "-e": "--exclude"}


def ob(sec, opt, mode, L, timeout, fixb=None, extra=(), long=False, nin=1):
    fixb = fixb or {}
    n = {"bool": 3, "str": 3 * L, "strseq": 6 * L, "excl": 6 * L, "exclseed": 6 * L, "outdir": 3, "wrongtype": 1}[mode]
    return vf.CH(f"C16 {mode} {sec}.{opt}" + (f" {sorted(fixb.items())}" if fixb else "") + (f" with {' '.join(extra)} also on the command line" if extra else "") + (" (long option spellings)" if long else "") + (f" ({nin} input paths)" if nin != 1 else ""), "c16_layer.py",
                 dict(MODE=mode, SECTION=sec, OPTION=opt, CLI=(LONG[CLI[(sec, opt)]] if long and (sec, opt) in CLI else CLI.get((sec, opt))), L=L, NCP=n, FIXB=fixb,
                      EXTRA=tuple(extra), SFLAG="--settings" if long else "-s", NIN=nin),
                 timeout=(max(timeout, 600) if mode == "outdir" else timeout), encodes=ENC, unblock=["os.mkdir"],
                 symbolic="whether a -s file is given at all; for each of the three writable sources (per-user file, -s file, command line where a flag exists): whether it sets the option, and the value it gives"
                          + ("; relative_to_config switched on in the -s file and/or the per-user file" if mode == "outdir" else ""),
                 bound=f"strings of exactly {L} chars, lists of 2 strings (exclude filters: 2 strings or, in a file, the empty list), output directories from a 4-entry menu")


def build(tier):
    quick = tier == "quick"
    t = 300 if quick else 1800
    L = 2 if quick else 3
    obs = []
    for (sec, opt, mode) in options():
        if mode == "outdir":      # split: with / without a -s file x command-line flag present / absent
            for us in (False, True):
                for cs in (False, True):
                    if us and cs:         # the largest quarter is split once more (the -s file sets the directory or not)
                        for ss in (False, True):
                            obs.append(ob(sec, opt, mode, L, t, dict(use_s=us, c_set=cs, s_set=ss)))
                    else:
                        obs.append(ob(sec, opt, mode, L, t, dict(use_s=us, c_set=cs)))
        else:
            obs.append(ob(sec, opt, mode, L, t))
    # options do not disturb each other: every command-line flag next to each of the other command-line flags
    pairs = [(("input", "recursive", "bool"), ("-e", "pat")), (("input", "recursive", "bool"), ("-p", "P", "-o", "od")),
             (("input", "exclude_filters", "excl"), ("-r",)), (("rst", "prefix", "str"), ("-r", "-e", "pat")),
             (("rst", "file_extensions_in_titles", "bool"), ("-p", "P", "-r")), (("input", "auto_exclude_directories_without_cmake", "bool"), ("-r", "-e", "pat"))]
    for ((sec, opt, mode), extra) in pairs:
        obs.append(ob(sec, opt, mode, L, t, extra=extra))
    for ss in (False, True):
        obs.append(ob("output", "directory", "outdir", L, t, dict(use_s=True, c_set=True, s_set=ss), extra=("-p", "P")))
    # several input paths in one run: each is documented, in order, under the same settings in effect
    for (sec, opt, mode) in (("input", "recursive", "bool"), ("rst", "prefix", "str"), ("input", "exclude_filters", "excl")):
        obs.append(ob(sec, opt, mode, L, t, nin=2 if mode != "bool" else 3))
    # the long spellings of the five command-line options
    for (sec, opt, mode) in (("input", "recursive", "bool"), ("rst", "prefix", "str"), ("input", "exclude_filters", "excl")):
        obs.append(ob(sec, opt, mode, L, t, long=True))
    for ss in (False, True):
        obs.append(ob("output", "directory", "outdir", L, t, dict(use_s=True, c_set=True, s_set=ss), long=True))
    # C16.b a value of the wrong type is rejected, in either file
    for (sec, opt) in (("input", "recursive"), ("input", "include_undocumented_function"), ("rst", "file_extensions_in_titles"),
                       ("input", "kwargs_doc_trigger_string"), ("rst", "module_path_separator")):
        o = ob(sec, opt, "wrongtype", L, t)
        o.name = f"C16.b wrong type rejected {sec}.{opt}"
        obs.append(o)
    return dict(obligations=obs, explanation="x", assumptions=[])
