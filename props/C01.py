import vf, e2obs, decode, importlib
import prog_kinds

ENC_TEXT = ["cminx.aggregator.DocumentationAggregator.enterDocumented_command", "DocumentationAggregator.clean_doc_lines",
            "DocumentationAggregator.process_<kind> (all kinds)", "cminx.documentation_types.*.process",
            "cminx.documenter.Documenter.process_docs", "cminx.rstwriter.Paragraph.build_text_string",
            "cminx.rstwriter.Directive.to_text", "cminx.rstwriter.RSTWriter.to_text", "antlr4 ParseTreeWalker + CMakeParser.*Context"]


def build(tier):
    quick = tier == "quick"
    obs = []
    enc = ["cminx.aggregator.DocumentationAggregator.clean_doc_lines"]
    def tup(n):
        return "Tuple[" + ", ".join(["int"] * max(1, n)) + "]"
    shards = [(0, 2, 3), (1, 3, 4), (2, 2, 3)] if quick else [(0, 4, 4), (1, 4, 6), (2, 3, 4), (3, 2, 3)]
    for (n, k, l) in shards:
        obs.append(vf.CH(f"C01.a clean canonical n={n} k<={k} L<={l}", "c01_clean.py",
                         dict(N=n, K=k, L=l, LEADERLESS=False, FIRSTLINE=False, NOSPACE=False, NCP=n * l, MT=tup(n), IT=tup(k), PAD=0, PADIND=""),
                         timeout=240 if quick else 2400, encodes=enc,
                         symbolic="indent in {' ','\\t'}^<=k; n texts of <=L arbitrary code points (no LF, CR, ']]'); all lengths symbolic",
                         bound=f"n={n}, k<={k}, L<={l}"))
    for (n, l) in ([(1, 3), (2, 3)] if quick else [(1, 5), (2, 4), (3, 3)]):
        obs.append(vf.CH(f"C01.b clean leaderless n={n} L<={l}", "c01_clean.py",
                         dict(N=n, K=0, L=l, LEADERLESS=True, FIRSTLINE=False, NOSPACE=False, NCP=n * l, MT=tup(n), IT=tup(0), PAD=0, PADIND=""),
                         timeout=240 if quick else 2400, encodes=enc,
                         symbolic="n texts, first char a letter, rest arbitrary code points", bound=f"n={n}, L<={l}, unindented"))
    # text on the opening line ('#[[[ text'): it is the first line of the documentation, whatever the indentation of the block
    for (n, k, l) in ([(2, 2, 3)] if quick else [(2, 3, 4), (3, 2, 3)]):
        obs.append(vf.CH(f"C01.a clean canonical n={n} k<={k} L<={l}, first text on the opening line", "c01_clean.py",
                         dict(N=n, K=k, L=l, LEADERLESS=False, FIRSTLINE=True, NOSPACE=False, NCP=n * l, MT=tup(n), IT=tup(k), PAD=0, PADIND=""),
                         timeout=240 if quick else 2400, encodes=enc,
                         symbolic="indent in {' ','\\t'}^<=k; n texts of <=L arbitrary code points (no LF, CR, ']]'), the first one (non-empty) on the opening line; all lengths symbolic",
                         bound=f"n={n}, k<={k}, L<={l}"))
    obs.append(vf.CH("C01.a clean n=2 k<=2 L<=3, body lines written '#'+text (no space after the leader)", "c01_clean.py",
                     dict(N=2, K=2, L=3, LEADERLESS=False, FIRSTLINE=False, NOSPACE=True, NCP=6, MT=tup(2), IT=tup(2), PAD=0, PADIND=""),
                     timeout=240 if quick else 2400, encodes=enc,
                     symbolic="indent; 2 texts of <=3 arbitrary code points whose first character is not a space (a TAB for instance)", bound="n=2, k<=2, L<=3"))
    o = vf.CH("C01.a [known finding D22 isolated] body line written '#'+text whose text starts with '#', '[' or ']'", "c01_clean.py",
              dict(N=1, K=1, L=2, LEADERLESS=False, FIRSTLINE=False, NOSPACE="D22", NCP=2, MT=tup(1), IT=tup(1), PAD=0, PADIND=""),
              timeout=240 if quick else 1200, encodes=enc, symbolic="indent; one text of <=2 code points starting with '#', '[' or ']'", bound="n=1, k<=1, L<=2", finding="D22")
    obs.append(o)
    # long lines: every non-empty text carries a concrete filler (200 / 1000 chars) between its symbolic characters
    for pad in ((200,) if quick else (200, 1000)):
        obs.append(vf.CH(f"C01.a clean canonical n=2 k<=2 L<=3 with {pad}-char filler (long lines)", "c01_clean.py",
                         dict(N=2, K=2, L=3, LEADERLESS=False, FIRSTLINE=False, NOSPACE=False, NCP=6, MT=tup(2), IT=tup(2), PAD=pad, PADIND=""), timeout=240 if quick else 2400, encodes=enc,
                         symbolic="as C01.a; lines of 2-3 symbolic characters around a concrete filler", bound=f"n=2, k<=2, line length up to {pad + 3}"))
        obs.append(vf.CH(f"C01.c pair function+cpp_member with {pad}-char filler (long lines)", "c01_pair.py",
                         dict(K1="function", K2="cpp_member", LENS1=(2, 0, 1), LENS2=(1,), IND="  ", NCP=4, PAD=pad), timeout=240 if quick else 1200, encodes=ENC_TEXT,
                         symbolic="doc lines = symbolic characters + concrete filler", bound=f"line length up to {pad + 2}"))
    # deeply indented blocks: a concrete indentation prefix (48 spaces / 40 tabs; thorough also 200) before the symbolic indent characters
    for padind in ((" " * 48, chr(9) * 40) if quick else (" " * 48, chr(9) * 40, " " * 200, (" " + chr(9)) * 60)):
        obs.append(vf.CH(f"C01.a clean canonical n=2 k<=2 L<=3 block indented by {len(padind)} more characters", "c01_clean.py",
                         dict(N=2, K=2, L=3, LEADERLESS=False, FIRSTLINE=False, NOSPACE=False, NCP=6, MT=tup(2), IT=tup(2), PAD=0, PADIND=padind), timeout=240 if quick else 2400, encodes=enc,
                         symbolic="as C01.a", bound=f"n=2, indentation {len(padind)}..{len(padind) + 2} characters"))
    for padind in ((" " * 6, chr(9) * 7) if quick else (" " * 6, chr(9) * 7, " " * 48)):
        obs.append(vf.CH(f"C01.a clean canonical n=2 k<=2 L<=3, first text on the opening line, block indented by {len(padind)} more characters", "c01_clean.py",
                         dict(N=2, K=2, L=3, LEADERLESS=False, FIRSTLINE=True, NOSPACE=False, NCP=6, MT=tup(2), IT=tup(2), PAD=0, PADIND=padind), timeout=240 if quick else 2400, encodes=enc,
                         symbolic="as C01.a", bound=f"n=2, indentation {len(padind)}..{len(padind) + 2} characters"))
    kinds = prog_kinds.KINDS
    pairs = [(kinds[i], kinds[(i + 1) % len(kinds)]) for i in range(len(kinds))] if quick else [(a, b) for a in kinds for b in kinds]
    for (a, b) in pairs:
        l1, l2 = ((2, 0, 1), (1,)) if quick else ((3, 0, 2), (0, 2))
        obs.append(vf.CH(f"C01.c pair {a}+{b} line lengths {l1},{l2}", "c01_pair.py", dict(K1=a, K2=b, LENS1=l1, LENS2=l2, IND="  ", NCP=sum(l1) + sum(l2), PAD=0),
                         timeout=240 if quick else 1200, encodes=ENC_TEXT,
                         symbolic=f"doc lines of lengths {l1} and {l2}: arbitrary code points (no LF, CR, ']]'); 0 = empty line",
                         bound=f"two adjacent documented commands ({a}, {b}); line lengths {l1} / {l2}"))
    # doccomment attached to the module: body lines incl. leading/inner empty lines reach the module directive verbatim
    # a documented definition right after a declaration that still waits for its implementation: both doccomments reach the page
    for (a_, b_) in ((("ct_add_test!", "function"), ("cpp_member!", "macro")) if quick else
                     (("ct_add_test!", "function"), ("cpp_member!", "macro"), ("ct_add_section!", "macro"), ("cpp_constructor!", "function"))):
        obs.append(vf.CH(f"C01.c documented {b_} right after a pending {a_[:-1]} declaration: both doccomments reach the page", "c01_pair.py",
                         dict(K1=a_, K2=b_, LENS1=(2, 0, 1), LENS2=(1, 2), IND="  ", NCP=6, PAD=0), timeout=240 if quick else 1200, encodes=ENC_TEXT,
                         symbolic="every character of both doccomments", bound="line lengths (2, 0, 1) / (1, 2); containment of the two paragraphs, not page equality"))
    C12 = importlib.import_module('C12')
    for (hn, bl) in (((True, (0, 2, 0, 1)), (False, (2, 0))) if quick else ((True, (0, 3, 0, 0, 2)), (False, (2, 0, 3)), (True, (0,)))):
        o = C12.mod_ob(hn, 2, bl, 2, True, 240 if quick else 1200)
        o.name = o.name.replace('C12.c', 'C01.c module doccomment')
        obs.append(o)
    D = 2 if quick else 4
    obs.append(e2obs.ob_validate(D, tier))
    obs.append(e2obs.ob_canon('C01', D, module=False, label='C01.d'))
    obs.append(e2obs.ob_canon('C01', D, module=True, label='C01.d'))
    obs.append(decode.ob_decode('C01', 'C01.e'))
    obs.append(e2obs.ob_second_opinion("C01", D))          # after all other z3 obligations of this run (they run in list order)
    return dict(obligations=obs, explanation="x", assumptions=[])
