import vf, trees, importlib

def build(tier):
    quick = tier == "quick"
    obs = []
    base = dict(ext_t=False, ext_m=False, out_i=0, has_prefix=False, sep2=False)
    # matcher = fully symbolic predicate over the paths CMinx asks about (input path included), every listing order
    for sk in (["S1", "S2q"] if quick else ["S1", "S2", "S2b", "S3"]):
        for rec in ((True,) if sk != "S1" else (False,)):
            for ae in (False, True):
                obs.append(trees.tree_ob("C15", sk, "tree", dict(base, recursive=rec, auto_ex=ae), timeout=400 if quick else 2400))
    obs.append(trees.tree_ob("C15 stdout", "S1", "stdout", dict(base, recursive=False, auto_ex=False), timeout=400 if quick else 2400))
    # C15.b 'regardless of which source supplied the pattern': the matcher is built from the union of the patterns of all sources
    C16 = importlib.import_module('C16')
    for extra in ((), ('-r',)):
        o = C16.ob('input', 'exclude_filters', 'excl', 2, 300 if quick else 1800, extra=extra)
        o.name = o.name.replace('C16 excl', 'C15.b pattern sources (union)')
        obs.append(o)
    return dict(obligations=obs, explanation="x", assumptions=[])
