#!/bin/bash
# usage: tools/bg.sh C14 C15 ...  -> runs checks sequentially in background, logs to .logs/<ID>.log
mkdir -p /verif/.logs
for id in "$@"; do ( cd /verif && ./check "$id" ${TIER:+--tier $TIER} > .logs/$id.log 2>&1; echo "exit=$?" >> .logs/$id.log ); done
