#!/bin/bash
# usage: tools/seed_eval.sh <seed-name> <worktree> <property> <check ids...>
# 1. confirms the seeded change in its scratch worktree (tests pass, demo fails with / passes without the change)
# 2. keeps it as /verif/seeded/<seed-name>/ (patch.diff, demo, meta.json is written by hand afterwards)
# 3. applies it to /repo, runs the given checks (quick), undoes it
ROOT=$(cd "$(dirname "$0")/.." && pwd)
name=$1; wt=$2; prop=$3; shift 3
set -u
T=$(mktemp -d /tmp/_se_XXXXXX)      # private scratch: two evaluations may run side by side
if [ -n "${SKIP_CONFIRM:-}" ]; then
  # second evaluation of a change already confirmed and kept: take the kept patch, leave the scratch worktree alone
  while [ ! -s /verif/seeded/$name/patch.diff ]; do sleep 10; done
  cp /verif/seeded/$name/patch.diff $T/seed.diff
else
cd "$wt" || exit 2
git diff -- src cmake > $T/seed.diff
[ -s $T/seed.diff ] || cp patch.diff $T/seed.diff
demo=$(ls demo_*.py | head -1)
echo "== tests with the change"; PYTHONPATH=$wt/src /venv/bin/python -m pytest -q -p no:cacheprovider 2>&1 | tail -1
echo "== demo with the change"; PYTHONPATH=$wt/src /venv/bin/python -W ignore $demo > $T/demo_with.txt 2>&1; echo "exit=$?"; tail -3 $T/demo_with.txt
git checkout -- src cmake
echo "== demo without the change"; PYTHONPATH=$wt/src /venv/bin/python -W ignore $demo > $T/demo_without.txt 2>&1; echo "exit=$?"; tail -2 $T/demo_without.txt
git apply $T/seed.diff
mkdir -p /verif/seeded/$name && cp $T/seed.diff /verif/seeded/$name/patch.diff && cp $demo /verif/seeded/$name/
fi
cd "$ROOT"
# SEED_REPO: scratch worktree of /repo HEAD to apply the change in (default: /repo itself, as the brief prescribes)
R=${SEED_REPO:-/repo}
if ! git -C $R apply --check $T/seed.diff 2>/dev/null; then echo "PATCH DOES NOT APPLY TO $R HEAD"; exit 3; fi
git -C $R apply $T/seed.diff
for c in "$@"; do echo "== check $c"; VERIF_REPO=$R ./check $c > $T/check_$c.log 2>&1; echo "exit=$?"; grep -E "^VIOLATION|^KNOWN|^HARNESS|^C[0-9]+ \[" $T/check_$c.log | cut -c1-260; grep -A1 "^VIOLATION" $T/check_$c.log | grep obligation | cut -c1-420 | head -3; done
git -C $R checkout -- . ; git -C $R status --short
rm -rf "$T"
