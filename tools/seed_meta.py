#!/usr/bin/env python3
"""Writes /verif/seeded/<name>/meta.json from the evaluation logs (.logs/seed_<ID>.log, .logs/seedbefore_<ID>.log)."""
import json, os, re, sys
R = os.path.dirname(os.path.dirname(os.path.abspath(__file__)))
INFO = {
 "C01-strip-trailing": ("C01", "clean_doc_lines: per-line lstrip('#[]') became strip('#[]') (and the last-line rstrip dropped)", "a doccomment body line that ENDS in '#', '[' or ']' (e.g. ':type x: list[str]')"),
 "C02-pending-not-cleared": ("C02", "enterCommand_invocation: the pending member/test declaration is cleared only inside `if len(params) > 2`", "a member/test whose implementing definition has <= 2 arguments, followed later by an undocumented function/macro with <= 2 arguments: that later definition is swallowed"),
 "C03-kwargs-through-placeholder": ("C03", "process_cmake_parse_arguments marks the innermost *documented* frame instead of only the top frame", "cmake_parse_arguments inside a placeholder definition (member/test implementation or skipped undocumented definition) nested in a documented function/macro"),
 "C04-consumed-by-line": ("C04", "aggregator.consumed became a set of start LINE numbers instead of a list of parse contexts", "an undocumented command with a processor starting on the same line as a documented command (two commands on one line)"),
 "C05-hash-in-unquoted": ("C05", "lexer ATN: '#' no longer ends an Unquoted_argument", "'#' glued to an unquoted argument, or a blank-free bracket comment such as #[[x]] (ties with Unquoted_argument, earlier rule wins)"),
 "C06-late-lexer-listener": ("C06", "Documenter.__init__: parser.reset() added and the raising lexer listener attached after it (two cooperating sites)", "a lexical fault before the first real token of the file (offset 0 / after leading comments)"),
 "C07-list-indent-first-only": ("C07", "RSTList.build_list_string: indent applied to the first list item only", "a list with >= 2 items at a non-zero indent: a class with two or more inner classes"),
 "C08-unbalanced-skipped-def": ("C08", "skipped undocumented function/macro no longer pushes a placeholder; endfunction/endmacro pops only a non-empty stack (two cooperating sites)", "include_undocumented_function/macro off + an undocumented definition nested in a documented one + cmake_parse_arguments"),
 "C09-inner-class-outermost": ("C09", "process_cpp_class registers an inner class with documented_classes_stack[0] instead of [-1]", "class nesting depth >= 3"),
 "C10-strip-quoted-whitespace": ("C10", "process_set folds/strips whitespace of a single quoted value", "a single quoted value that starts or ends with whitespace (set(SEP \" \"))"),
 "C11-expectfail-after-name-only": ("C11", "process_ct_add_section looks for EXPECTFAIL only after the name", "ct_add_section(EXPECTFAIL NAME x): keyword before NAME"),
 "C12-module-name-after-strip": ("C12", "document_single_file: module_name = header_name moved below the title's extension stripping", "file_extensions_in_titles false together with file_extensions_in_modules true"),
 "C13-autoexclude-rebind": ("C13", "auto-exclusion loop rewritten as a list comprehension that rebinds `subdirs` (os.walk is no longer pruned)", "-r + auto-exclusion + a directory without .cmake files that has a sub-directory with one"),
 "C14-scandir-case-insensitive": ("C14", "auto-exclusion scan matches *.cmake case-insensitively while the per-directory check stays case-sensitive (two sites disagree)", "-r + auto-exclusion + a sub-directory whose only CMake files have a non-lower-case extension (outside C13/C14's stated quantifier: mixed-case extensions only next to a lower-case .cmake file)"),
 "C15-match-relative-paths": ("C15", "entries are matched against the exclude patterns by their path relative to the input directory", "exclude patterns that are absolute paths (or name the input directory / its ancestors)"),
 "C16-reltoconfig-needs-sfile": ("C16", "main(): relative_to_config honoured only when a -s file is given", "per-user config sets relative_to_config: true and a relative output.directory, no -s and no -o"),
 "C17-shallow-settings-copy": ("C17", "document(): copy.deepcopy(settings) became copy.copy(settings): the derived prefix leaks into the run-wide settings", "several inputs in one run, an earlier one a directory, no explicit prefix"),
 "C18-prune-under-output": ("C18", "document(): sub-directories whose path starts with abspath(output) are pruned when -o is given", "-r with the output directory an ancestor of / equal to the input directory, or nested in it next to a sibling with the same name prefix"),
 "C19-remove-duplicates": ("C19", "cminx_gen_rst: for directory inputs '-r' is prepended and list(REMOVE_DUPLICATES) run over all options", "a directory input with a repeated token among the extra arguments (-e a -e b, or an extra '-r')"),
 "C20-dedent-paragraph": ("C20", "Paragraph.build_text_string dedents the text before applying the indent", "a paragraph whose every non-blank line starts with whitespace of its own"),
 "C01r2-module-leading-blank": ("C01", "enterDocumented_module cleans header and body separately; clean_doc_lines' 'drop one leading newline' then eats an empty first body line (two cooperating sites)", "a module doccomment (#[[[ @module) whose first body line is empty"),
 "C02r2-entry-at-endfunction": ("C02", "function/macro entries are appended when the definition is closed (endfunction/endmacro) instead of where it starts", "a function/macro whose body contains another documentable command: entries come out of source order"),
 "C03r2-strip-cache-by-text": ("C03", "parameter-name stripping memoised in a dict keyed by the parameter text only (not by pattern/kind)", "function and macro strip patterns both set and different, a function and a macro in one file sharing a parameter name"),
 "C05r2-file-scope-parse-arguments": ("C05", "the cmake_parse_arguments branch guarded by 'definition stack non-empty', so the call falls through to the by-name catch-all", "an undocumented cmake_parse_arguments() at file scope: KeyError include_undocumented_cmake_parse_arguments"),
 "C06r2-recover-returns-at-eof": ("C06", "ParserErrorStrategy.recover() returns silently when the lookahead is EOF", "a bare word as the last token of the file"),
 "C08r2-skip-before-pending-link": ("C08", "the 'skip undocumented function/macro' branch moved before the branch linking a definition to a pending member/test declaration", "include_undocumented_function/macro off + a documented member whose implementing definition is then skipped: parameters lost"),
 "C09r2-pending-cleared-at-end": ("C09", "the pending member declaration is cleared at endfunction/endmacro instead of at its implementing definition", "a nested function/macro inside a method's body is taken as a second implementing definition"),
 "C12r2-shallow-copy-prefix": ("C12", "document(): deepcopy -> copy of the settings: the derived default prefix leaks into the caller's settings", "several inputs in one run without an explicit prefix: later inputs are titled with the first directory's name"),
 "C13r2-output-name-case": ("C13", "output file name built with the case-sensitive regex \\.cmake$", "a CMake file with a non-lower-case extension: Legacy.CMake -> Legacy.CMake.rst"),
 "C14r2-sort-before-autoexclude": ("C14", "the sorted() rebinding of subdirs moved before the auto-exclusion block, which then edits a copy", "-r + auto-exclusion + a directory without .cmake holding a sub-directory with one: unreachable pages"),
 "C15r2-exclude-only-lowercase": ("C15", "files are checked against the exclude patterns only if their name ends in lower-case .cmake", "an excluded CMake file with a mixed-case extension"),
 "C16r2-cwd-default-argument": ("C16", "config_template(cwd=os.getcwd()) default argument: evaluated once at import", "the process changes directory between `import cminx` and main(), with a relative output directory"),
 "C17r2-case-insensitive-sort": ("C17", "per-directory sort made case-insensitive (key=str.lower): not a total order", "two entries of one directory differing only in letter case + a different listing order"),
 "C04r2-expandtabs": ("C04", "clean_doc_lines expands tabs (expandtabs(4)) before stripping the block indent", "a tab inside the doc text + a block indentation that is not a multiple of 4"),
 "C07r2-module-body-strip": ("C07", "enterDocumented_module strips every body line (leading indentation lost)", "a module doccomment whose body has an indented part (nested directive body, literal block, list continuation)"),
 "C10r2-empty-string-default": ("C10", "default rendered as `self.value or fallback`", "set(VAR \"\"): the empty string is shown as None"),
 "C11r2-consumed-flag": ("C11", "'already handled' bookkeeping as one boolean flag cleared only in the catch-all branch (two cooperating sites)", "a documented set()/generic command directly followed by an undocumented ct_add_test/ct_add_section/add_test: that test is dropped"),
 "C19r2-realpath-input": ("C19", "cminx_gen_rst resolves the input with get_filename_component(... REALPATH) before forwarding it", "an input path that is (or contains) a symbolic link"),
 "C20r2-stale-str-cache": ("C20", "RSTWriter.__str__ caches its text keyed by heading object and element counts", "serialise, then mutate a descendant (counts of the ancestor unchanged), then serialise again"),
 "C01r3-indent-cap-32": ("C01", "block indentation measured with the regex [ \\t]{0,32}: capped at 32 characters", "a doccomment block indented by more than 32 spaces/tabs"),
 "C02r3-consumed-trim-96": ("C02", "the 'consumed' list is trimmed when it reaches 96 entries, wiping the current command's own contexts", "a file with >= 32 documented commands, the 32nd one having a processor: it gets a second, doc-less entry"),
 "C03r3-definition-stack-cap-8": ("C03", "definition stack replaced by a list subclass that stores at most 8 frames and only counts deeper ones", "function/macro definitions nested more than 8 deep with cmake_parse_arguments in a deep body"),
 "C05r3-paren-depth-cap-32": ("C05", "ParserErrorStrategy.sync() reports 'nested too deeply' when the rule depth exceeds 32", "parenthesised argument groups nested 30+ deep (valid CMake)"),
 "C09r3-class-stack-deque-8": ("C09", "class stack is a deque(maxlen=8) and cpp_end_class pops only a non-empty stack (two cooperating sites)", "classes nested 9+ deep with members declared after the inner class"),
 "C11r3-consumed-trim-80": ("C11", "enterBracket_doccomment trims the 'consumed' list when it exceeds 80 entries, dropping the pending invocation", "more than 26 documented commands in one file; the 27th is a test command: emitted twice"),
 "C13r3-walk-depth-cap": ("C13", "os.walk loop clears subdirs below MAX_WALK_DEPTH = 8 (framed as symlink-cycle protection)", "a tree with 10 or more nested directory levels"),
 "C20r3-indent-cache-off-by-one": ("C20", "get_indents() uses a precomputed table for levels 0-7 and an off-by-one recursion beyond", "directives nested 8 or more levels deep"),
 "C04r4-generic-args-sorted-by-column": ("C04", "process_generic_command merges single arguments and groups by sorting on the start token's COLUMN", "a documented generic command with a parenthesised group whose argument list is spread over several lines"),
 "C06r4-skip-parse-when-nothing-to-document": ("C06", "Documenter.process() skips lexing/parsing when all include_undocumented_* options are off and the text holds no '#[[['", "all ten include_undocumented_* options off + a faulty file without any doccomment"),
 "C07r4-drop-lines-shorter-than-indent": ("C07", "clean_doc_lines drops doccomment lines shorter than the block indentation", "an indented doccomment with a physically empty line (e.g. before a literal block)"),
 "C08r4-blank-doccomment-not-consumed": ("C08", "enterDocumented_command returns early for a blank doccomment on a kind that has an include option", "a command carrying an empty doccomment + its include_undocumented_<kind> option off: the entry disappears"),
 "C10r4-duplicate-option-dropped": ("C10", "process_option skips an undocumented option() whose name already has an entry", "the same option name declared twice, the later declaration undocumented"),
 "C12r4-prefix-rstrip-separator": ("C12", "document_single_file joins prefix.rstrip(separator) + separator + name", "a prefix that ends with (a character of) the configured separator"),
 "C14r4-shallow-copy-index-titles": ("C14", "document(): deepcopy -> copy of the settings (derived prefix leaks to the next input)", "two directory inputs in one run without explicit prefix: the second tree's index titles carry the first tree's name"),
 "C15r4-exclude-union-dropped": ("C15", "main() keeps only the resolved exclude_filters list instead of the union of all sources", "exclude patterns in a settings file AND -e on the command line"),
 "C16r4-cli-section-overwrite": ("C16", "command-line options are overlaid section by section: each option overwrites its whole section dict", "-r and -e together on the command line (the only two flags of one section): -r is lost"),
 "C17r4-exclude-matches-cwd-relative": ("C17", "exclusion also matches the pattern against the path relative to the current working directory", "an exclude pattern sensitive to the cwd-relative spelling + a change of working directory"),
 "C18r4-cwd-default-argument": ("C18", "config_template(cwd=os.getcwd()) default argument evaluated at import", "relative -o with the process having changed directory since `import cminx`: pages land outside the requested directory"),
 "C19r4-early-return-without-modules": ("C19", "cminx_gen_rst returns early when file(GLOB_RECURSE) finds no *.cmake below a directory input", "a directory without lower-case *.cmake files + settings that would document it anyway, or arguments that make CMinx fail"),
 "C01r5-member-class-by-name": ("C01", "cpp_member/cpp_attr are attached to the open class whose NAME equals their class argument (textual match)", "a member whose class argument is spelled differently from the cpp_class() argument (other letter case, quoted): its doccomment vanishes"),
 "C02r5-current-class-cache": ("C02", "a cached 'current class' set by cpp_class and reset to None (not to the enclosing class) by cpp_end_class", "an outer class that declares members after a nested class has ended"),
 "C03r5-trigger-at-position-0": ("C03", "trigger test written as docstring.find(trigger) > 0", "a doccomment that BEGINS with the trigger string (and no cmake_parse_arguments in the body)"),
 "C05r5-documented-dispatch-case": ("C05", "enterDocumented_command no longer lower-cases the command name (the undocumented dispatch still does)", "a documented FUNCTION/Macro/Cpp_Class written with upper-case letters: IndexError at the closing command"),
 "C09r5-macro-member-strip-pattern": ("C09", "one helper picks the strip pattern and tests 'macro' before 'member'", "a member implemented by a macro with member and macro strip patterns configured differently"),
 "C11r5-add-test-name-index-by-value": ("C11", "add_test drops the arguments at params.index(name) - 1 instead of at the NAME keyword's position", "NAME not first and an earlier argument equal to the test name"),
 "C13r5-output-sibling-prefix": ("C13", "sub-directories whose path startswith the (nested) output directory are pruned, without a trailing separator", "-r, output nested in the input tree, and a sibling directory whose name starts with the output directory's name"),
 "C20r5-option-overwrite-same-name": ("C20", "Directive.option() replaces an earlier option of the same name in place", "the same option name added twice to one directive"),
 "C04r6-splitlines-doc-lines": ("C04", "enterDocumented_command/_module split the doccomment with str.splitlines() instead of split('\\n')", "a doc line containing FF, VT, NEL, U+2028/2029, FS/GS/RS or a lone CR + an indented doccomment block"),
 "C06r6-escape-identity-zero": ("C06", "lexer grammar typo: Escape_identity excludes [A-Za-z1-9;] (serialized ATN patched consistently)", "the invalid escape \\0 outside comments"),
 "C07r6-unescape-quoted-set-value": ("C07", "process_set evaluates CMake escape sequences of a single quoted value (\\n -> newline)", "a documented set(VAR \"...\\n...\") : the Default value field gains a real line break and leaves its directive"),
 "C08r6-include-option-suffix-match": ("C08", "include_undocumented(command) matches option names by suffix (ct_add_test ends with add_test)", "include_undocumented_add_test off + include_undocumented_ct_add_test on + an undocumented add_test()"),
 "C10r6-semicolon-value-typed-list": ("C10", "a single value containing ';' is typed list", "documented set() with one value that contains a semicolon"),
 "C12r6-title-from-unnamed-module": ("C12", "process_docs sets writer.title = module_doc.name also for an unnamed @module doccomment", "unnamed @module doccomment + file_extensions_in_titles != file_extensions_in_modules"),
 "C14r6-toctree-stem-first-dot": ("C14", "toctree entry = file[:file.find('.')]", "a CMake file whose base name contains a dot before the extension"),
 "C15r6-auto-exclude-first-cmake-only": ("C15", "auto-exclusion looks only at the FIRST .cmake entry scandir lists", "-r, a subdirectory with an excluded and a non-excluded .cmake file, the excluded one listed first"),
 "C16r6-exclude-union-skipped-when-top-empty": ("C16", "the exclude-pattern union is skipped when the highest-priority source's list is empty", "exclude_filters: [] in the -s file + patterns in the per-user file"),
 "C17r6-exclude-filters-through-set": ("C17", "main() de-duplicates the exclude patterns through set()", "two overlapping patterns, one negated + different hash seeds"),
 "C18r6-index-written-after-pages": ("C18", "document() writes index.rst after the pages of the directory", "a module named index.cmake (its page and the index share one path: known finding D15)"),
 "C19r6-settings-file-suppresses-r": ("C19", "cminx_gen_rst parses -s <file> from the extra arguments and drops -r when the file says recursive: false", "directory input + '-s <file>' whose text matches 'recursive: *(false|no|off)'"),
 "C01r7-method-doc-nfc-normalised": ("C01", "MethodDocumentation.process emits unicodedata.normalize('NFC', doc)", "cpp_member/cpp_constructor doccomment with text that is not NFC (combining sequences, U+212B, U+0958 ...)"),
 "C02r7-member-class-name-sanity-check": ("C02", "process_cpp_member returns early when the class argument differs textually from the open class's name", "member whose class argument is spelled in another case / quoted / a reference"),
 "C03r7-kwargs-not-appended-if-present": ("C03", "**kwargs appended only if '**kwargs' not in param_list", "a parameter spelled exactly **kwargs + kwargs trigger or cmake_parse_arguments"),
 "C05r7-redefined-function-skipped": ("C05", "process_function returns early (no stack push) when a function of that name is already documented", "the same function name defined twice in one file: IndexError at endfunction"),
 "C09r7-param-types-by-name-dict": ("C09", "MethodDocumentation.process pairs names and types through dict(zip(params, types))", "two parameters of a member implementation with the same (stripped) name"),
 "C11r7-section-type-by-raw-command-text": ("C11", "process_ct_add_section delegates to process_ct_add_test, which picks the doc type by the RAW command text", "CT_ADD_SECTION written with upper-case letters gets the test warning"),
 "C13r7-empty-directory-skipped": ("C13", "document() skips a walked directory without files and subdirectories (no index.rst)", "-r, auto-exclusion off, a completely empty (or completely excluded) directory"),
 "C20r7-heading-length-by-display-width": ("C20", "Heading frame length = sum of east-asian display widths instead of len(title)", "a title with wide/full-width characters"),
 "C04r8-macro-flag-by-raw-spelling": ("C04", "is_macro of a pending member/test is computed from the RAW command spelling (identifier == 'macro')", "cpp_member/cpp_constructor implemented by a macro written MACRO/Macro: the macro note disappears"),
 "C06r8-errors-collected-per-directory": ("C06", "document() catches syntax errors per file, collects them in a list that is re-initialised per walked directory and re-raises after the walk", "-r, a faulty file in a directory that is not the last one walked: exit status 0 (rebased onto the D16 fix for evaluation)"),
 "C07r8-macro-test-note-outside-entry": ("C07", "Test/SectionDocumentation.process emits a macro note on the parent writer instead of the entry's directive", "ct_add_test/ct_add_section implemented by a macro: a top-level '.. note::' follows the entry"),
 "C08r8-pending-cleared-only-with-params": ("C08", "the pending member/test declaration is cleared only when the implementing definition has parameters beyond name and self", "documented no-argument member + a following undocumented declaration whose kind is switched off: the documented entry gains foreign parameters"),
 "C10r8-type-field-suppressed-by-doc": ("C10", "the generated type field is omitted when the doccomment contains ':type:'", "documented set()/option() whose doccomment has a ':type:' field of its own"),
 "C12r8-title-escaped-frame-not": ("C12", "Heading escapes inline-markup characters of the title line (re.sub) but frames by the unescaped length", "a title with '*', '`', '|' or a word-final '_'"),
 "C14r8-input-realpath": ("C14", "document() canonicalises the input with os.path.realpath", "the input path is a symbolic link and no prefix is given: index titles name the link target"),
 "C15r8-trailing-slash-after-input-check": ("C15", "the trailing slash of a directory input is added after the input-path exclusion check", "a directory-only pattern ('build/') matching the input directory + auto-exclusion off + -o"),
 "C16r8-falsy-cli-values-dropped": ("C16", "command-line options are filtered with 'and value' before set_args", "-p '' (or -o '') on the command line + a lower-priority source setting the option"),
 "C17r8-visited-realpath-skips-alias": ("C17", "the walk skips directories whose realpath was already visited", "follow_symlinks on + a directory reachable under two names + two listing orders"),
 "C18r8-filenames-narrowed-with-o": ("C18", "the -o branch rebinds filenames to the *.cmake-filtered list", "a file named exactly 'cmake' -- documented on the pinned code only because of defect D16; with the D16 fix the change has no effect left"),
 "C19r8-stale-rst-removed": ("C19", "cminx_gen_rst globs and removes '*.rst' below the output directory before running cminx (directory inputs)", "an output directory that already holds pages of an earlier call"),
 "C01r9-documented-definition-after-pending-skipped": ("C01", "enterDocumented_command returns early for a function/macro while a member/test declaration waits for its implementation", "a definition that carries its own doccomment right after cpp_member/ct_add_test...: its doccomment is dropped"),
 "C02r9-equal-entries-dropped": ("C02", "process_docs skips an entry that compares equal (dataclass ==) to one already processed", "two commands yielding equal entries (same kind, name, doc, arguments), e.g. the same helper in both branches of if()/else()"),
 "C03r9-strip-pattern-by-raw-spelling": ("C03", "the strip pattern is looked up by the command name as spelled (no lower())", "FUNCTION/Macro in another letter case + a non-empty strip pattern"),
 "C05r9-input-through-splitlines": ("C05", "Documenter reads the file itself and rebuilds the text from str.splitlines()", "VT, FF, FS/GS/RS, NEL, U+2028/2029 in a comment or an argument: they become line breaks before lexing"),
 "C09r9-documented-implementation-not-linked": ("C09", "a documented function/macro is no longer taken as the implementation of the pending member (ctx not in consumed)", "cpp_member/cpp_constructor whose implementing definition carries a doccomment: the member loses parameters and macro note"),
 "C11r9-equal-entries-dropped-at-writing": ("C11", "process_docs skips entries equal to one already written", "two sections (or tests) with the same name, doc and flag, e.g. 'setup' in several tests"),
 "C13r9-one-page-per-first-dot-stem": ("C13", "filenames de-duplicated by the text before the FIRST dot", "two *.cmake files of one directory sharing the text before their first dot (utils.cmake, utils.strings.cmake)"),
 "C20r9-header-list-on-the-class": ("C20", "RSTWriter stores the header list on the class and looks the character up when a heading is rebuilt", "two documents with different header lists alive at once + a title change of the earlier one"),
 "C04r10-group-text-from-source": ("C04", "argument_text takes a parenthesised group's raw source text and collapses whitespace", "a documented generic command / add_test with a group whose tokens touch ('AND(B OR C)') or with a comment inside"),
 "C06r10-lexing-inside-a-debug-log-call": ("C06", "a DEBUG log record whose formatting fills the token stream: logging swallows the CMakeSyntaxError, the parser resumes after the fault", "a log handler at DEBUG level (settings file) + a lexical fault between commands: exit 0, page written"),
 "C07r10-tab-after-hash-stripped": ("C07", "clean_doc_lines strips one space OR tab after the leader", "a doccomment whose nested reST body is indented with a tab directly after '#'"),
 "C08r10-kwargs-marks-first-documented-frame": ("C08", "process_cmake_parse_arguments walks down the stack to the first documented frame", "documented outer definition + undocumented inner one holding the call + the inner kind switched off"),
 "C10r10-option-in-ignored-body-skipped": ("C10", "undocumented option()/function()/macro() inside the body of an ignored definition is skipped", "undocumented option in a test/member implementation, or in an undocumented function with include_undocumented_function off"),
 "C12r10-cmake-removed-everywhere": ("C12", "the extension is dropped with str.replace('.cmake', '')", "'.cmake' inside the prefix, a directory name or the base name"),
 "C14r10-islink-relative-to-input": ("C14", "the symbolic-link test joins the subdirectory to the INPUT path instead of the walked directory", "-r, a symbolic link to a directory one level below the input"),
 "C15r10-absolute-patterns-normalised": ("C15", "absolute exclude patterns pass through os.path.normpath (trailing slash lost)", "an absolute directory-only pattern with a glob that also matches a file"),
 "C16r10-recursive-default-false": ("C16", "argparse default of -r is False instead of None (the command-line layer always sets it)", "input.recursive: true in a settings file and no -r"),
 "C17r10-prefix-from-realpath": ("C17", "the default prefix is the base name of os.path.realpath(input)", "input path = symbolic link to a directory of another name, no -p"),
 "C18r10-output-name-cut-at-first-dot": ("C18", "output file name = relative path cut at its first dot", "a dotted directory or base name: pages collapse onto one file, unrelated files overwritten"),
 "C19r10-extra-arguments-through-remove-item": ("C19", "options built from ARGV with list(REMOVE_ITEM input output)", "an extra argument spelled exactly like the input or the output argument"),
 "C18r2-sort-by-splitext": ("C18", "files sorted by (stem, extension) instead of by name", "a directory with names like Foo.cmake and Foo-x.cmake: stdout page order is not the sorted name order"),
}

def parse(path):
    if not os.path.exists(path):
        return None
    t = open(path).read()
    out = {"tests_with_change": None, "demo_with": None, "demo_without": None, "checks": {}}
    m = re.search(r"== tests with the change\n(.*)", t); out["tests_with_change"] = m.group(1).strip() if m else None
    m = re.search(r"== demo with the change\nexit=(\d+)", t); out["demo_with"] = int(m.group(1)) if m else None
    m = re.search(r"== demo without the change\nexit=(\d+)", t); out["demo_without"] = int(m.group(1)) if m else None
    for m in re.finditer(r"== check (C\d+)\nexit=(\d+)\n((?:.*\n)*?)(?===|\Z)", t):
        body = m.group(3)
        summ = re.search(r"^C\d+ \[quick\].*$", body, re.M)
        viol = re.findall(r"obligation=([^:]+):", body)
        out["checks"][m.group(1)] = {"exit": int(m.group(2)), "summary": summ.group(0)[:200] if summ else None,
                                    "violated_obligations_sample": [v.strip()[:140] for v in viol[:3]]}
    return out

for name, (prop, change, needs) in INFO.items():
    d = os.path.join(R, "seeded", name)
    if not os.path.isdir(d):
        continue
    r2 = "r2" if "r2-" in name else ("r3" if "r3-" in name else ("r4" if "r4-" in name else ("r5" if "r5-" in name else ("r6" if "r6-" in name else ("r7" if "r7-" in name else ("r8" if "r8-" in name else ("r9" if "r9-" in name else ("r10" if "r10-" in name else ""))))))))
    after = parse(os.path.join(R, ".logs", "seed%s_%s.log" % (r2, prop)))
    before = parse(os.path.join(R, ".logs", "seed%sbefore_%s.log" % (r2, prop)))
    meta = {"breaks_property": prop, "change": change, "needs_to_manifest": needs,
            "origin": "written by an independent sub-agent that saw only the property text and its own scratch worktree",
            "confirmed_by_me": {"existing_69_tests_with_change": (after or {}).get("tests_with_change") or (before or {}).get("tests_with_change"),
                                "demo_exit_with_change": (after or {}).get("demo_with") if (after or {}).get("demo_with") is not None else (before or {}).get("demo_with"),
                                "demo_exit_without_change": (after or {}).get("demo_without") if (after or {}).get("demo_without") is not None else (before or {}).get("demo_without")},
            "what_i_ran": "tools/seed_eval.sh: tests + demo in the scratch worktree with and without the patch; then patch applied to a scratch worktree of /repo HEAD (VERIF_REPO) and the quick checks run; undone afterwards",
            "checks_after_strengthening": (after or {}).get("checks"),
            "checks_before_strengthening": (before or {}).get("checks")}
    json.dump(meta, open(os.path.join(d, "meta.json"), "w"), indent=1)
    det = [c for c, v in ((after or {}).get("checks") or {}).items() if v["exit"] == 1]
    print(name, "detected by", det or "-", "| before:", [c for c, v in ((before or {}).get("checks") or {}).items() if v["exit"] == 1] if before else "n/a")
