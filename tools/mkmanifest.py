#!/usr/bin/env python3
"""Regenerates MANIFEST.json from tools/claims.json (one record per property)."""
import json, os
R = os.path.dirname(os.path.dirname(os.path.abspath(__file__)))
claims = json.load(open(os.path.join(R, "tools", "claims.json")))
props = [json.loads(l) for l in open(os.path.join(R, "properties.jsonl"))]
# the claim texts are those of lib/meta.py (the same texts the checks write into the evidence files): keep claims.json in step
import importlib.util
_spec = importlib.util.spec_from_file_location("meta", os.path.join(R, "lib", "meta.py"))
_meta = importlib.util.module_from_spec(_spec); _spec.loader.exec_module(_meta)
for pid, m in _meta.META.items():
    if pid in claims and not claims[pid].get("not_applicable"):
        claims[pid]["text"] = ("Bounded symbolic verification, not a proof: " + m["explanation"] +
                               " A verdict holds only inside the bounds stated per obligation in the evidence file; INCONCLUSIVE obligations are counted as not discharged.")
        claims[pid]["note"] = ("Assumptions: " + "; ".join(m.get("assumptions") or ["none"]) + ". Outside the claim: " + "; ".join(m.get("outside") or ["nothing further"]) +
                               ". Trusted: " + "; ".join(m.get("trusted") or []))
json.dump(claims, open(os.path.join(R, "tools", "claims.json"), "w"), indent=1)
checks = []; na = []
for p in props:
    c = claims.get(p["id"])
    if not c or c.get("not_applicable"):
        na.append({"property_id": p["id"], "reason": (c or {}).get("not_applicable", "check not built yet (work in progress)")})
        continue
    checks.append({
        "property_id": p["id"],
        "quick_cmd": f"./check {p['id']} --tier quick",
        "thorough_cmd": f"./check {p['id']} --tier thorough",
        "evidence_file": f"/verif/evidence/{p['id']}.json",
        "replay_cmd_template": f"./check {p['id']} --replay {{path}}",
        "engine": c["engine"],
        "level_claimed": {"category": "other", "text": c["text"], "design_ref": c["design_ref"]},
        "level_note": c["note"],
        "technique": c["technique"],
    })
m = {
    "version": 1,
    "setup_cmd": "./setup.sh",
    "hooks": {"guard": "CMINX_VERIF", "enable": "none needed: no hook was added to /repo; stubs are applied from outside by assigning module attributes inside the harness process (export CMINX_VERIF=1 is set by ./check for uniformity)",
              "baseline_off_cmd": "cd /repo && /venv/bin/python -m pytest -ra -q -p no:cacheprovider --timeout=900 --continue-on-collection-errors",
              "source_commits": [], "add_only": True},
    "engines": claims["_engines"],
    "checks": checks,
    "notes": claims["_notes"],
    "not_applicable": na,
}
json.dump(m, open(os.path.join(R, "MANIFEST.json"), "w"), indent=1)
print(len(checks), "claimed;", len(na), "not applicable")
