#!/bin/bash
# thorough-tier runs in background: tools/bgt.sh C01 C02 ...
mkdir -p /verif/.logs/thorough
for id in "$@"; do ( cd /verif && /usr/bin/time -f "elapsed=%e" ./check "$id" --tier thorough > .logs/thorough/$id.log 2>&1; echo "exit=$?" >> .logs/thorough/$id.log ); done
