"""Shared parts of the CrossHair harnesses (imported inside the harness process).

* report(ok, **args)   -- path accounting, sample recording, counterexample dump (exactly the solver's assignment)
* tree builder         -- real CMakeParser.*Context objects / TerminalNodeImpl(CommonToken), walked by the real ParseTreeWalker
* `re` shims           -- CrossHair mis-models re.sub with an empty pattern (DESIGN.md section 1)
"""
import os
import sys

sys.setrecursionlimit(20000)

try:
    from crosshair.tracers import NoTracing
    from crosshair.core import deep_realize
except Exception:  # pragma: no cover - replay without crosshair still works
    class NoTracing:  # type: ignore
        def __enter__(self): return self
        def __exit__(self, *a): return False

    def deep_realize(x): return x

_CEX = os.environ.get("VF_CEX_FILE")
_CNT = os.environ.get("VF_COUNT_FILE")
_SMP = os.environ.get("VF_SAMPLE_FILE")
_nsamples = [0]


def report(ok, **args):
    """Call as the last statement: `return report(ok, a=a, b=b)`. Forces the verdict of this path, then records it."""
    ok = bool(ok)                      # the branch on the (possibly symbolic) assertion happens here, inside tracing
    if os.environ.get("VF_REPLAY"):
        return ok
    # NB: nothing is realised on a passing path -- realising adds solver decisions to CrossHair's path tree, which then can
    # never be exhausted (probed: same obligation 'Not confirmed' after 120 s with realisation, confirmed in seconds without)
    with NoTracing():
        if _CNT:
            with open(_CNT, "ab") as f:
                f.write(b".")
    if (not ok) != bool(os.environ.get("VF_TWIN")) and _CEX:
        real = deep_realize(args)      # the solver's assignment for this failing path, exactly
        with NoTracing():
            with open(_CEX, "w", encoding="utf-8") as f:
                f.write(repr(real))
    return ok


# ------------------------------------------------------------------------------------------------ symbolic text from code points
# Probed: a symbolic `str` argument has a symbolic length, and every index operation on text derived from it costs a solver
# call; a page-sized equality then needs minutes per path. A string built as chr(c0)+chr(c1)+... from symbolic *ints* has a
# concrete length: the same obligation is confirmed in seconds. So harnesses take code points and build their texts here.
def cp_ok(c):
    """any code point. (Lone surrogates cannot come out of a UTF-8 file, but excluding them as a disjunction doubles the
    path count per character; the functions under test treat them like any other character, so they are simply included.)"""
    return 0 <= c <= 0x10FFFF


def cps_ok(cs, bad=()):
    for c in cs:
        if not cp_ok(c):
            return False
        for b in bad:
            if c == b:
                return False
    return True


def S(cs):
    s = ""
    for c in cs:
        s = s + chr(c)
    return s


class Pieces:
    """hands out consecutive pieces of a tuple of code points"""
    def __init__(self, cps):
        self.cps = cps
        self.i = 0

    def take(self, n):
        s = S(self.cps[self.i:self.i + n])
        self.i += n
        return s

    def raw(self, n):
        r = self.cps[self.i:self.i + n]
        self.i += n
        return r


NL, CR, TAB, SP, QUOTE, BSLASH = 10, 13, 9, 32, 34, 92
PLAINBAD = (32, 9, 10, 13, 40, 41, 35, 34, 92)      # space tab LF CR ( ) # " backslash


# ------------------------------------------------------------------------------------------------ tree builder
from antlr4.Token import CommonToken
from antlr4.tree.Tree import TerminalNodeImpl
from cminx.parser.CMakeParser import CMakeParser as P

ID, UNQ, QUO, BRA = P.Identifier, P.Unquoted_argument, P.Quoted_argument, P.Bracket_argument
ARGTYPES = [ID, UNQ, QUO, BRA]


def tok(ttype, text, line=1, column=0):
    t = CommonToken(type=ttype)
    t.text = text
    t.line = line
    t.column = column
    return t


def term(parent, ttype, text, line=1, column=0):
    n = TerminalNodeImpl(tok(ttype, text, line, column))
    n.parentCtx = parent
    parent.addChild(n)
    if getattr(parent, "start", None) is None:       # like the real parser: start/stop = first/last token of the rule
        parent.start = n.symbol
    parent.stop = n.symbol
    return n


def _adopt(parent, child):
    parent.addChild(child)
    if getattr(parent, "start", None) is None:
        parent.start = child.start
    parent.stop = child.stop


def single_arg(parent, ttype, text, line=1, column=0):
    c = P.Single_argumentContext(None, parent)
    term(c, ttype, text, line, column)
    _adopt(parent, c)
    return c


def compound_arg(parent, args, line=1, pos=None):
    c = P.Compound_argumentContext(None, parent)
    if pos is not None:
        l0, c0 = pos.next()
        term(c, P.T__0, "(", l0, c0)
    else:
        term(c, P.T__0, "(", line)
    add_args(c, args, line, pos)
    if pos is not None:
        l1, c1 = pos.next()
        term(c, P.T__1, ")", l1, c1)
    else:
        term(c, P.T__1, ")", line)
    _adopt(parent, c)
    return c


class Positions:
    """hands out (line, column) pairs for consecutive tokens"""
    def __init__(self, pairs):
        self.pairs, self.i = pairs, 0

    def next(self):
        p = self.pairs[self.i]
        self.i += 1
        return p


def add_args(parent, args, line=1, pos=None):
    for a in args:
        if isinstance(a, list):
            compound_arg(parent, a, line, pos)
        elif pos is not None:
            l, c = pos.next()
            single_arg(parent, a[0], a[1], l, c)
        else:
            single_arg(parent, a[0], a[1], line)


def command(parent, name, args, line=1, column=0, pos=None):
    c = P.Command_invocationContext(None, parent)
    term(c, P.Identifier, name, line, column)
    term(c, P.T__0, "(", line)
    add_args(c, args, line, pos)
    term(c, P.T__1, ")", line)
    _adopt(parent, c)
    return c


def doccomment(parent, text, line=1):
    c = P.Bracket_doccommentContext(None, parent)
    term(c, P.Docstring, text, line)
    _adopt(parent, c)
    return c


def file_ctx(items, module_doc=None, line0=1, column=0, lines=None, argpos=None):
    """items: list of (doc_text_or_None, name, args); name None => dangling doccomment; args: (type, text) or nested list.
    lines: optional start line per item (of its doccomment if it has one, else of the command); the command of a documented
    item starts 3 lines below its doccomment."""
    root = P.Cmake_fileContext(None)
    if module_doc is not None:
        m = P.Documented_moduleContext(None, root)
        term(m, P.Module_docstring, module_doc)
        _adopt(root, m)
    line = line0
    i = 0
    for (doc, name, args) in items:
        if lines is not None:
            line = lines[i]
        if name is None:
            doccomment(root, doc, line)
        elif doc is not None:
            dc = P.Documented_commandContext(None, root)
            doccomment(dc, doc, line)
            command(dc, name, args, line + 3, column, argpos)
            _adopt(root, dc)
        else:
            command(root, name, args, line, column, argpos)
        line = line + 1
        i += 1
    term(root, -1, "<EOF>", line)
    return root


def canon_lines(ind, texts):
    """the same block as a list of lines (avoids splitting a symbolic string)"""
    return ["#[[["] + [ind + ("# " + t if t else "#") for t in texts] + [ind + "#]]"]


def canon_block(ind, texts):
    """canonical doccomment block (property C01's quantifier): '#[[[' / ind+'# '+t (bare '#' for empty) / ind+'#]]'"""
    s = "#[[["
    for t in texts:
        s = s + "\n" + ind + ("# " + t if t else "#")
    return s + "\n" + ind + "#]]"


# ------------------------------------------------------------------------------------------------ re shims
import re as _re


class ReShimReal:
    """arguments realised, genuine re.sub called outside tracing (pattern and text concrete in the harness)"""
    def __getattr__(self, n):
        return getattr(_re, n)

    @staticmethod
    def sub(pattern, repl, string, *a, **k):
        # re.sub("", "", s) == s for every s (the empty pattern matches the empty string at every position and replaces it
        # by the empty string): the default strip patterns are "", and realising s here would enumerate it value by value
        if type(pattern) is str and pattern == "" and type(repl) is str and repl == "" and not a and not k:
            return string
        with NoTracing():
            return _re.sub(deep_realize(pattern), deep_realize(repl), deep_realize(string))


class ReShimFree:
    """sub(p, "", s) is the opaque term <p|s>: decided for every pattern at once; calls are logged"""
    def __init__(self):
        self.log = []

    def __getattr__(self, n):
        return getattr(_re, n)

    def sub(self, pattern, repl, string, *a, **k):
        self.log.append((pattern, string))
        return "<" + pattern + "|" + string + ">"


def shim_re(mode="real"):
    import cminx.aggregator as agg
    s = ReShimReal() if mode == "real" else ReShimFree()
    agg.re = s
    return s


def quiet_logging():
    import logging
    logging.disable(logging.CRITICAL)


class _TextwrapShim:
    """textwrap.dedent is called by OptionDocumentation.process on a constant; under tracing its regexes take ~minutes per path.
    The genuine function is run outside tracing (its argument is concrete; a symbolic one is realised, which is sound but slow)."""
    def __getattr__(self, n):
        import textwrap
        return getattr(textwrap, n)

    @staticmethod
    def dedent(text):
        import textwrap
        with NoTracing():
            return textwrap.dedent(deep_realize(text))


def fast_textwrap():
    import cminx.documentation_types as dt
    dt.textwrap = _TextwrapShim()


fast_textwrap()


# ------------------------------------------------------------------------------------------------ hash-seed model (C17)
class VSet:
    """Stand-in for the builtins `set` / `frozenset` *inside the cminx modules*: the only way the hash seed (PYTHONHASHSEED) can reach
    the output of pure Python code over strings is the iteration order of sets (and explicit hash() calls). This class keeps the
    elements in a list and iterates either in insertion order or in the reverse order, chosen by the harness (`VSet.rev`); both are
    orders a real set of a few strings takes under some seed. Two runs that differ only in `VSet.rev` must produce the same result.
    Membership is decided by == (no hashing: symbolic strings are not realised)."""
    rev = False
    used = 0

    def __init__(self, it=()):
        self._l = []
        VSet.used += 1
        for x in it:
            self.add(x)

    def __class_getitem__(cls, item):
        return cls

    def add(self, x):
        for y in self._l:
            if x == y:
                return
        self._l.append(x)

    def update(self, *its):
        for it in its:
            for x in it:
                self.add(x)

    def __contains__(self, x):
        for y in self._l:
            if x == y:
                return True
        return False

    def __len__(self):
        return len(self._l)

    def __bool__(self):
        return len(self._l) > 0

    def __iter__(self):
        return iter(list(reversed(self._l)) if (VSet.rev and len(self._l) > 1) else list(self._l))

    def discard(self, x):
        self._l = [y for y in self._l if not (x == y)]

    def remove(self, x):
        if x not in self:
            raise KeyError(x)
        self.discard(x)

    def pop(self):
        if not self._l:
            raise KeyError("pop from an empty set")
        return self._l.pop(0 if VSet.rev else -1)

    def clear(self):
        self._l = []

    def copy(self):
        return VSet(self._l)

    def union(self, *o):
        r = VSet(self._l)
        r.update(*o)
        return r
    __or__ = lambda self, o: self.union(o)
    __ror__ = lambda self, o: VSet(o).union(self)

    def intersection(self, *o):
        return VSet([x for x in self._l if all(x in VSet(t) for t in o)])
    __and__ = lambda self, o: self.intersection(o)

    def difference(self, *o):
        return VSet([x for x in self._l if not any(x in VSet(t) for t in o)])
    __sub__ = lambda self, o: self.difference(o)

    def issubset(self, o):
        o = VSet(o)
        return all(x in o for x in self._l)
    __le__ = issubset

    def issuperset(self, o):
        return all(x in self for x in o)
    __ge__ = issuperset

    def isdisjoint(self, o):
        return not any(x in self for x in o)

    def __eq__(self, o):
        if not isinstance(o, (VSet, set, frozenset)):
            return NotImplemented
        o = VSet(o)
        return self.issubset(o) and o.issubset(self)

    __hash__ = None

    def __repr__(self):
        return "VSet(%r)" % (self._l,)


def install_set_model():
    """shadow set/frozenset in the global namespace of every cminx module written in this repository (not the generated parser)"""
    import cminx, cminx.aggregator, cminx.documenter, cminx.documentation_types, cminx.rstwriter, cminx.config
    for m in (cminx, cminx.aggregator, cminx.documenter, cminx.documentation_types, cminx.rstwriter, cminx.config):
        m.set = VSet
        m.frozenset = VSet
