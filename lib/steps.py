"""Shard tables for the inductive-step harness (shared by C02, C03, C05, C08, C09)."""
import vf

STEP_ENC = ["cminx.aggregator.DocumentationAggregator.enterDocumented_command", "DocumentationAggregator.enterCommand_invocation",
            "DocumentationAggregator.enterBracket_doccomment", "DocumentationAggregator.process_* (all processors)",
            "DocumentationAggregator.clean_doc_lines", "antlr4.ParseTreeWalker.walk over real CMakeParser.*Context objects"]

# kind -> argument counts that are well-formed for it
ARITIES = {
    "function": [1, 3], "macro": [1, 3], "endfunction": [0], "endmacro": [0], "cmake_parse_arguments": [2],
    "set": [1, 2, 3], "option": [2, 3], "cpp_class": [1, 3], "cpp_end_class": [0], "cpp_attr": [2, 3],
    "cpp_member": [2, 4], "cpp_constructor": [2, 4], "ct_add_test": [1, 2], "ct_add_section": [1, 2], "add_test": [1, 3],
    "@other": [0, 2],
}


def special_names():
    from cminx.aggregator import DocumentationAggregator
    names = sorted(n[len("process_"):] for n in dir(DocumentationAggregator) if n.startswith("process_"))
    return names, sorted(set(names) | {"endfunction", "endmacro", "cpp_end_class"})


def tup(n):
    return "Tuple[" + ", ".join(["int"] * max(1, n)) + "]"


PLACEHOLDER = ["a1", "b2", "c3", "d4"]


def step_obligations(prefix, kinds, tier, maxd, maxc, symflags=False, free=False, symkw=False, symargs=True, alen=None,
                     timeout=None, arities=None, namelen=None, tl=1, dl=2, region=None, deepd=0, deepc=0, preargs=()):
    """symargs=False: argument texts are concrete placeholders (state-heavy family A); True: symbolic texts (family B)"""
    quick = tier == "quick"
    procs, special = special_names()
    obs = []
    for ki, k in enumerate(kinds):
        ars = (arities or ARITIES).get(k if k in ARITIES else "@other")
        if (quick and k not in ("function", "macro")) or not symargs:
            ars = ars[-1:]          # (implementing definitions with <= 2 and with > 2 arguments are both kept in the quick tier)
        for na in ars:
            al = alen or (2 if quick else 3)
            nl = namelen or (2 if quick else 3)
            fam = "B(symbolic args)" if symargs else "A(state)"
            big = (f" +{deepd} deep definition frames" if deepd else "") + (f" +{deepc} deep class frames" if deepc else "") + (f" +{len(preargs)} concrete arguments" if preargs else "")
            tag = big if region is None else big + (" [known finding %s %s]" % (region[0], "isolated" if region[1] == "in" else "subtracted"))
            obs.append(vf.CH(f"{prefix} step {fam} kind={k} nargs={na} |defs|<={maxd} |classes|<={maxc}{tag}", "step.py",
                             dict(KIND=k, MAXD=maxd, MAXC=maxc, NCP=(na * al) if symargs else 0, NA=na if symargs else 0, CARGS=None if symargs else PLACEHOLDER[:na],
                                  ALEN=al, CASES=(0, 1, 2) if k != "@other" else (0,), SYMFLAGS=symflags, FREE=free, SYMKW=symkw, BLANKDOC=symflags, REGION=region, DEEPD=deepd, DEEPC=deepc, PREARGS=tuple(preargs), NAMELEN=nl, TL=tl, DL=dl, SPECIAL=special,
                                  NT=tup(nl if k == "@other" else 1), FT=tup(3 + tl + dl if free else 1)),
                             timeout=timeout or ((600 if k in ("function", "macro") else 300) if quick else (3600 if k == "@other" else 1800)), encodes=STEP_ENC,
                             symbolic="abstract pre-state sigma (shape of the definition and class stacks, each frame entry or none, "
                                      "pending declaration none/method/test), documented flag, letter case of the command name, "
                                      "token line/column"
                                      + (", argument texts" if symargs else "")
                                      + (", kwargs flag of every open definition" if symkw else "")
                                      + (", the ten include_undocumented_* flags" if symflags else "")
                                      + (", strip patterns (opaque, via free regex shim), trigger string, doc text" if free else "")
                                      + (", the command name itself (any string of exactly NAMELEN code points that is not a processor name)" if k == "@other" else ""),
                             bound=f"|defs|<={maxd}, |classes|<={maxc}, "
                                   + (f"{na} argument texts of exactly {al} chars (no separators/quotes)" if symargs else f"{na} concrete placeholder arguments")
                                   + ", one step from an arbitrary state (covers histories of any length)",
                             finding=(region[0] if region and region[1] == "in" else None)))
    return obs
