"""Engine E2: the serialized ANTLR ATNs of the generated lexer/parser -> regular expressions -> z3 (DESIGN.md 3.2).

Regenerated on every run from CMakeLexer.atn / CMakeParser.atn as deserialized by the real antlr4 runtime."""
import re as pyre
import time

from antlr4 import InputStream, Token
from antlr4.atn.ATNState import DecisionState
from antlr4.atn.Transition import Transition
from antlr4.error.ErrorListener import ErrorListener

import rx
from rx import EPS, EMPTY, cat, alt, star, plus, opt, and_, not_, lit, chars, notchars, rng, REALC, EOFC, ANYC, ALL, ALLE


class Unsupported(Exception):
    pass


def _eliminate(edges, seen, S, F):
    def add(p, q, r):
        edges[(p, q)] = alt(edges.get((p, q), EMPTY), r)
    for q in sorted([q for q in seen if q not in (S, F)], key=lambda q: sum(1 for e in edges if q in e)):
        loop = star(edges.pop((q, q), EMPTY))
        ins = [(p, r) for (p, x), r in edges.items() if x == q]
        outs = [(x, r) for (p, x), r in edges.items() if p == q]
        for (p, _) in ins:
            edges.pop((p, q))
        for (x, _) in outs:
            edges.pop((q, x))
        for (p, a) in ins:
            for (x, b) in outs:
                add(p, x, cat(a, loop, b))
    r = edges.get((S, F), EMPTY)
    if (S, S) in edges:
        r = cat(star(edges[(S, S)]), r)
    if (F, F) in edges or (F, S) in edges:
        raise Unsupported("edges leaving a rule stop state")
    return r


def _label_ranges(t):
    k = t.serializationType
    if k == Transition.ATOM:
        return [(t.label_, t.label_)]
    if k == Transition.RANGE:
        return [(t.start, t.stop)]
    if k == Transition.SET:
        return [(r.start, r.stop - 1) for r in t.label.intervals]
    if k == Transition.NOT_SET:
        return list(rx.negate([(max(r.start, 0), r.stop - 1) for r in t.label.intervals if r.stop - 1 >= 0]))
    if k == Transition.WILDCARD:
        return [(0, rx.MAXCP)]
    raise Unsupported("lexer transition type %d" % k)


class LexerModel:
    def __init__(self, D=2):
        from cminx.parser.CMakeLexer import CMakeLexer
        self.atn = CMakeLexer.atn
        self.names = CMakeLexer.ruleNames
        self.D = D
        if len(self.atn.modeToStartState) != 1:
            raise Unsupported("lexer modes")
        for a in (self.atn.lexerActions or []):
            if type(a).__name__ != "LexerSkipAction":
                raise Unsupported("lexer action " + type(a).__name__)
        order = [t.target.ruleIndex for t in self.atn.modeToStartState[0].transitions]
        self.rules = []          # (ruleIndex, name, regex AST (raw), nongreedy, skipped)
        for r in order:
            self.rules.append((r, self.names[r], self.rule_regex(r, 0, ()), self.nongreedy(r), self.skipped(r)))
        self.order = [n for (_, n, _, _, _) in self.rules]
        self.eff = {n: (rx.minimal(x) if ng else x) for (_, n, x, ng, _) in self.rules}
        self.skip = [n for (_, n, _, _, sk) in self.rules if sk]
        self.ttype = {self.atn.ruleToTokenType[r]: n for (r, n, _, _, _) in self.rules}
        self._py = None

    def skipped(self, r):
        for s in self.atn.states:
            if s is not None and s.ruleIndex == r:
                for t in s.transitions:
                    if t.serializationType == Transition.ACTION:
                        return True
        return False

    def nongreedy(self, r, seen=None):
        seen = seen if seen is not None else set()
        if r in seen:
            return False
        seen.add(r)
        for s in self.atn.states:
            if s is not None and s.ruleIndex == r:
                if isinstance(s, DecisionState) and s.nonGreedy:
                    return True
                for t in s.transitions:
                    if t.serializationType == Transition.RULE and self.nongreedy(t.target.ruleIndex, seen):
                        return True
        return False

    def rule_regex(self, r, depth, stack):
        atn = self.atn
        start, stop = atn.ruleToStartState[r], atn.ruleToStopState[r]
        edges = {}
        seen = {start.stateNumber}
        work = [start]
        while work:
            s = work.pop()
            if s is stop:
                continue
            for t in s.transitions:
                k = t.serializationType
                if k == Transition.RULE:
                    callee = t.target.ruleIndex
                    nd = depth + (1 if callee in stack + (r,) else 0)
                    x = EMPTY if nd > self.D else self.rule_regex(callee, nd, stack + (r,))
                    tgt = t.followState
                elif k in (Transition.EPSILON, Transition.ACTION):
                    x = EPS
                    tgt = t.target
                elif k in (Transition.PREDICATE, Transition.PRECEDENCE):
                    raise Unsupported("predicate in lexer ATN")
                else:
                    rr = _label_ranges(t)
                    tgt = t.target
                    parts = []
                    if any(lo <= -1 <= hi for lo, hi in rr):
                        parts.append(EOFC)
                    real = rx.norm([(max(lo, 0), hi) for lo, hi in rr if hi >= 0])
                    if real:
                        parts.append(('set', real))
                    x = alt(*parts)
                edges[(s.stateNumber, tgt.stateNumber)] = alt(edges.get((s.stateNumber, tgt.stateNumber), EMPTY), x)
                if tgt.stateNumber not in seen:
                    seen.add(tgt.stateNumber)
                    work.append(tgt)
        return _eliminate(edges, seen, start.stateNumber, stop.stateNumber)

    # ---- run the model on a concrete string (python-re back end; minimal match = shortest accepted length)
    def trace(self, s0):
        """-> (list of (token-or-'SKIP', start, end), 'EOF'|'ERR')  -- same shape as real_trace()"""
        if self._py is None:
            self._py = [(n, pyre.compile(rx.to_py(x), pyre.S), ng, sk) for (_, n, x, ng, sk) in self.rules]
        s = s0 + chr(rx.EOFCP)
        pos = 0
        out = []
        while pos < len(s0):
            best = None
            for (n, pat, ng, sk) in self._py:
                if ng:
                    m = None
                    for e in range(pos + 1, len(s) + 1):
                        if pat.fullmatch(s, pos, e):
                            m = e
                            break
                else:
                    m = None
                    for e in range(len(s), pos, -1):
                        if pat.fullmatch(s, pos, e):
                            m = e
                            break
                if m is None:
                    continue
                if best is None or m > best[1]:
                    best = (n, m, sk)
            if best is None:
                return out, "ERR"
            n, e, sk = best
            out.append(("SKIP" if sk else n, pos, min(e, len(s0))))
            pos = e
        return out, "EOF"


class _L(ErrorListener):
    def __init__(self):
        self.errs = []

    def syntaxError(self, recognizer, offendingSymbol, line, column, msg, e):
        self.errs.append(getattr(recognizer, "_tokenStartCharIndex", -1))


def real_trace(s, ttype_names):
    """tokenise with the real CMakeLexer, recording skipped tokens too; stops at the first lexer error"""
    from cminx.parser.CMakeLexer import CMakeLexer

    class Rec(CMakeLexer):
        def skip(self):
            self._rec.append(("SKIP", self._tokenStartCharIndex, self._input.index))
            super().skip()
    lx = Rec(InputStream(s))
    lx._rec = []
    lx.removeErrorListeners()
    l = _L()
    lx.addErrorListener(l)
    while True:
        t = lx.nextToken()
        if l.errs:      # ANTLR recovers and goes on lexing inside nextToken(): keep only what precedes the first error
            return [x for x in lx._rec if x[2] <= l.errs[0]], "ERR"
        if t.type == Token.EOF:
            return lx._rec, "EOF"
        lx._rec.append((ttype_names[t.type], t.start, t.stop + 1))


def trim_to_error(trace):
    return trace


# ------------------------------------------------------------------------------------------------ parser model
class ParserModel:
    def __init__(self, D=2):
        from cminx.parser.CMakeParser import CMakeParser
        self.P = CMakeParser
        self.atn = CMakeParser.atn
        self.D = D
        self.live = set()       # token types that occur on some parser transition
        for s in self.atn.states:
            if s is None:
                continue
            for t in s.transitions:
                if t.serializationType == Transition.ATOM:
                    self.live.add(t.label_)
                elif t.serializationType == Transition.SET:
                    for iv in t.label.intervals:
                        self.live.update(range(iv.start, iv.stop))
                elif t.serializationType in (Transition.NOT_SET, Transition.WILDCARD):
                    raise Unsupported("parser wildcard / not-set transition")

    def rule(self, r, depth=0, stack=()):
        atn = self.atn
        start, stop = atn.ruleToStartState[r], atn.ruleToStopState[r]
        edges = {}
        seen = {start.stateNumber}
        work = [start]
        while work:
            s = work.pop()
            if s is stop:
                continue
            for t in s.transitions:
                k = t.serializationType
                if k == Transition.RULE:
                    callee = t.target.ruleIndex
                    nd = depth + (1 if callee in stack + (r,) else 0)
                    x = EMPTY if nd > self.D else self.rule(callee, nd, stack + (r,))
                    tgt = t.followState
                elif k in (Transition.EPSILON, Transition.ACTION):
                    x = EPS
                    tgt = t.target
                elif k == Transition.ATOM:
                    x = ('tok', (t.label_,))
                    tgt = t.target
                elif k == Transition.SET:
                    x = ('tok', tuple(sorted(v for iv in t.label.intervals for v in range(iv.start, iv.stop))))
                    tgt = t.target
                else:
                    raise Unsupported("parser transition type %d" % k)
                edges[(s.stateNumber, tgt.stateNumber)] = alt(edges.get((s.stateNumber, tgt.stateNumber), EMPTY), x)
                if tgt.stateNumber not in seen:
                    seen.add(tgt.stateNumber)
                    work.append(tgt)
        return _eliminate(edges, seen, start.stateNumber, stop.stateNumber)


def tokens_to_chars(prx, enc):
    """regex over token types -> regex over one code point per token type (enc: type -> code point)"""
    k = prx[0]
    if k == 'tok':
        return ('set', rx.norm([(enc[t], enc[t]) for t in prx[1]]))
    if k in ('eps', 'empty'):
        return prx
    if k == 'star':
        return star(tokens_to_chars(prx[1], enc))
    if k == 'cat':
        return cat(tokens_to_chars(prx[1], enc), tokens_to_chars(prx[2], enc))
    if k == 'alt':
        return alt(tokens_to_chars(prx[1], enc), tokens_to_chars(prx[2], enc))
    raise ValueError(k)


# ------------------------------------------------------------------------------------------------ queries
class Queries:
    """single-variable pure regex-membership queries: 'is this language empty?'"""

    def __init__(self, timeout_ms=60000):
        import z3
        self.z3 = z3
        self.cache = {}
        self.n = 0
        self.secs = 0.0
        self.timeout_ms = timeout_ms
        self.log = []          # (name, result, witness)
        self.asked = []        # (name, result, regex) for the second-opinion obligation

    def empty(self, name, regex):
        """-> ('unsat', None) | ('sat', witness str) | ('unknown', None)"""
        z3 = self.z3
        s = z3.Solver()
        s.set("timeout", self.timeout_ms)
        x = z3.String("x")
        s.add(z3.InRe(x, rx.to_z3(regex, self.cache)))
        t = time.time()
        r = s.check()
        self.secs += time.time() - t
        self.n += 1
        w = rx.decode_z3_string(s.model()[x]) if str(r) == "sat" else None
        self.log.append((name, str(r), w))
        self.asked.append((name, str(r), regex))
        return str(r), w

    def witness(self, name, regex):
        return self.empty(name, regex)


# ------------------------------------------------------------------------------------------------ reference (cmake-language(7))
class Reference:
    """Token classes written from the manual; expected CMinx class and FOLLOW first-character set per class."""

    def __init__(self, lex, D):
        ALNUM = alt(rng("A", "Z"), rng("a", "z"), rng("0", "9"))
        esc = alt(cat(lit("\\"), and_(REALC, not_(alt(ALNUM, lit(";"))))), lit("\\t"), lit("\\n"), lit("\\r"), lit("\\;"))
        eol = alt(cat(lit("\r"), opt(lit("\n"))), lit("\n"))
        self.eol = eol
        self.esc = esc

        def eqs(n):
            return lit("=" * n)

        def bopen(n):
            return cat(lit("["), eqs(n), lit("["))

        def bclose(n):
            return cat(lit("]"), eqs(n), lit("]"))
        any_bopen = cat(lit("["), star(lit("=")), lit("["))
        self.any_bopen = any_bopen

        def ref_bracket(n):          # content up to the *first* matching close
            return cat(bopen(n), rx.minimal(cat(ALL, bclose(n))))
        self.ref_bracket = ref_bracket
        ARG = ["Identifier", "Unquoted_argument", "Quoted_argument", "Bracket_argument"]
        SKIP = list(lex.skip)
        SEPC = chars(" \t\r\n()#")      # what may follow an argument: a separator, a parenthesis or a comment
        nonl = notchars("\r\n")
        T = {}
        T["identifier"] = (cat(alt(rng("A", "Z"), rng("a", "z"), lit("_")), star(alt(ALNUM, lit("_")))), ARG, SEPC)
        T["unquoted"] = (and_(plus(alt(notchars(' \t\r\n()#"\\'), esc)), not_(cat(any_bopen, ALL))), ARG, SEPC)
        T["quoted"] = (cat(lit('"'), star(alt(notchars('\\"'), esc, cat(lit("\\"), eol))), lit('"')), ARG, SEPC)
        for n in range(D + 1):
            T["bracket%d" % n] = (ref_bracket(n), ARG, SEPC)
        T["lparen"] = (lit("("), ["T__0"], REALC)
        T["rparen"] = (lit(")"), ["T__1"], REALC)
        T["space"] = (plus(chars(" \t")), SKIP, notchars(" \t"))
        T["newline"] = (plus(eol), SKIP, notchars("\r\n"))
        # a line comment: '#' not followed by a bracket_open, up to and including its line end (maximal: CR LF is one line end) or EOF
        T["line_comment"] = (cat(lit("#"), and_(star(nonl), not_(cat(any_bopen, ALL))), alt(eol, EOFC)), SKIP, None)
        for n in range(D + 1):
            bc = cat(lit("#"), ref_bracket(n))
            if n == 0:
                bc = and_(bc, not_(cat(lit("#[[["), ALL)))      # '#[[[' opens a CMinx doccomment
            T["bracket_comment%d" % n] = (bc, SKIP, REALC)
        # CMinx convention: '#[[[' ... '#]]' with ']]' only as its last two characters is a doccomment
        dc = and_(cat(lit("#[[["), ALL, lit("#]]")), not_(cat(ALL, lit("]]"), plus(REALC))))
        T["doccomment"] = (dc, ["Docstring", "Module_docstring"], chars(" \t\r\n"))
        self.T = T
        self.ARG, self.SKIP, self.SEPC = ARG, SKIP, SEPC

    def follow(self, name):
        """non-empty prefixes of what may follow the token: EOF sentinel, or first char from the class then anything"""
        T, cls, first = self.T[name]
        if first is None:        # line_comment carries its own terminator; anything (or nothing more) may follow
            return None
        return alt(EOFC, cat(first, ALLE))
