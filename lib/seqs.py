import vf
import steps

ENC = steps.STEP_ENC + ["cminx.documenter.Documenter.process_docs", "cminx.documentation_types.*.process", "RSTWriter/Directive.to_text"]


def tup(n, t="int"):
    return "Tuple[" + ", ".join([t] * max(1, n)) + "]"


def prefix_ok(ks):
    defs, classes, pending = [], 0, False
    for k in ks:
        if pending:
            if k not in ("function", "macro"):
                return False
            pending = False
            defs.append(k)
            continue
        if k in ("function", "macro"):
            defs.append(k)
        elif k in ("endfunction", "endmacro"):
            if not defs or defs[-1] != k[3:]:
                return False
            defs.pop()
        elif k == "cpp_class":
            classes += 1
        elif k == "cpp_end_class":
            if classes == 0:
                return False
            classes -= 1
        elif k in ("cpp_attr", "cpp_member", "cpp_constructor"):
            if classes == 0:
                return False
            pending = k != "cpp_attr"
        elif k in ("ct_add_test", "ct_add_section"):
            pending = True
    return True


def seq_obligations(prefix, kinds, n, nfirst, symflags=False, timeout=600, free=False, pre=()):
    """one shard per fixed prefix of `nfirst` command kinds; the remaining n - nfirst kinds and all documented flags are symbolic"""
    import itertools
    obs = []
    for first in itertools.product(range(len(kinds)), repeat=nfirst):
        if not prefix_ok([kinds[i] for i in first]):
            continue            # no well-formed module starts like this (the shard would be vacuous)
        obs.append(vf.CH(f"{prefix} sequences N={n}{' free-regex' if free else ''}{(' after %d concrete commands' % len(pre)) if pre else ''} starting with {[kinds[i] for i in first]}", "seq.py",
                         dict(KINDS=tuple(kinds), FIRST=tuple(first), N=n, SYMFLAGS=symflags, FREE=free, PREFIX=tuple(pre), KT=tup(n), DT=tup(n, "bool")),
                         timeout=timeout, encodes=ENC,
                         symbolic=f"the kind of every command after the fixed prefix (out of {len(kinds)}), the documented flag of every command"
                                  + (", the ten include_undocumented_* flags" if symflags else ""),
                         bound=f"sequences of exactly {n} commands from the initial state, well-formed prefixes of a module; kinds {list(kinds)}; concrete arguments"))
    return obs
