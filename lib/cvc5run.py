"""Decide SMT-LIB2 files with the cvc5 wheel (1.4.0): python cvc5run.py <tlimit-ms> <file>... -> one line '<file> <answer>' per file.
(The /usr/bin/cvc5 1.0.3 binary is NOT used: it answers 'sat' for x = "\\u{8}" not in (re.inter (re.range "\\u{0}" "\\u{2fffe}")
(re.comp (re.union (re.range "A" "Z") (str.to_re ";")))), which z3 4.8.12, z3 5.1 and cvc5 1.4.0 all refute -- see DESIGN.md 11.12.)"""
import sys
import cvc5


def run(path, tlimit):
    slv = cvc5.Solver()
    slv.setOption("strings-exp", "true")
    slv.setOption("tlimit-per", str(tlimit))
    parser = cvc5.InputParser(slv)
    parser.setFileInput(cvc5.InputLanguage.SMT_LIB_2_6, path)
    sm = parser.getSymbolManager()
    out = []
    while True:
        cmd = parser.nextCommand()
        if cmd.isNull():
            break
        r = cmd.invoke(slv, sm)
        if r.strip():
            out.append(r.strip())
    return out


if __name__ == "__main__":
    for p in sys.argv[2:]:
        try:
            a = run(p, int(sys.argv[1]))
            print(p, a[0] if a else "no answer", flush=True)
        except Exception as e:
            print(p, "(error %s)" % str(e).replace(chr(10), " ")[:200], flush=True)
