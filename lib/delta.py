"""The specification step delta of DESIGN.md section 4 (oracle of C02, C03, C08, C09; folded over sequences for C01.c etc.).

Written from the property texts, independent of the implementation's classes:
abstract entries are `E` objects, the abstract state is `State`, `step` is delta, `render_page` is spec_render of a state.
"""
import spec

FLAG_KINDS = ("function", "macro", "cpp_class", "cpp_attr", "cpp_constructor", "cpp_member", "ct_add_test", "add_test",
              "ct_add_section", "option")
CLOSERS = ("endfunction", "endmacro", "cpp_end_class")


class E:
    """abstract entry; `kind` in function|macro|variable|option|generic|ctest|test|section|class|method|attribute|module"""

    def __init__(self, kind, name, doc, **kw):
        self.kind, self.name, self.doc = kind, name, doc
        self.__dict__.update(kw)

    def __repr__(self):
        return "E(" + ", ".join(k + "=" + repr(v) for k, v in self.__dict__.items()) + ")"


class State:
    def __init__(self):
        self.entries = []      # top-level entries in order
        self.defs = []         # open function/macro definitions: E or None (no entry of its own)
        self.classes = []      # open cpp_class blocks: E or None (class not shown)
        self.pending = None    # member/test declaration waiting for its implementing definition


DEFAULT_FLAGS = {k: True for k in FLAG_KINDS}


def no_strip(which, s):
    return s


def step(st, documented, doc, name, args, flags=DEFAULT_FLAGS, trigger=":keyword", strip=no_strip):
    """delta: one command. `name` as written (any letter case); args = argument texts as written, in order."""
    kind = name.lower()
    shown = documented or flags.get(kind, False)
    if kind in ("function", "macro"):
        if st.pending is not None:
            # the definition that implements the immediately preceding member/test declaration: no entry of its own
            p = st.pending
            if p.kind == "method":
                p.params = p.params + [strip("member", a) for a in args][2:]
            else:
                p.params = p.params + list(args[2:])
            p.is_macro = kind == "macro"
            st.pending = None
            if documented:
                # the implementing definition carries a doccomment of its own: it is a documented definition as well -- an entry of its
                # own, and ONE frame (its own) for the cmake_parse_arguments calls of its body
                e = E(kind, args[0], doc, params=[strip(kind, a) for a in args[1:]], kwargs=(trigger in doc))
                st.entries.append(e)
                st.defs.append(e)
            else:
                st.defs.append(None)
        elif shown:
            e = E(kind, args[0], doc, params=[strip(kind, a) for a in args[1:]], kwargs=(trigger in doc))
            st.entries.append(e)
            st.defs.append(e)
        else:
            st.defs.append(None)
    elif kind in ("endfunction", "endmacro"):
        st.defs.pop()
    elif kind == "cmake_parse_arguments":
        if len(st.defs) > 0 and st.defs[-1] is not None:
            st.defs[-1].kwargs = True
    elif kind == "cpp_class":
        if shown:
            e = E("class", args[0], doc, bases=list(args[1:]), ctors=[], methods=[], attrs=[], inner=[])
            st.entries.append(e)
            if len(st.classes) > 0 and st.classes[-1] is not None:
                st.classes[-1].inner.append(e)
            st.classes.append(e)
        else:
            st.classes.append(None)
    elif kind == "cpp_end_class":
        st.classes.pop()
    elif kind in ("cpp_member", "cpp_constructor"):
        if shown and len(st.classes) > 0 and st.classes[-1] is not None:
            m = E("method", args[0], doc, parent=args[1], types=list(args[2:]), params=[], ctor=(kind == "cpp_constructor"),
                  is_macro=False)
            (st.classes[-1].ctors if m.ctor else st.classes[-1].methods).append(m)
            st.pending = m
    elif kind == "cpp_attr":
        if shown and len(st.classes) > 0 and st.classes[-1] is not None:
            st.classes[-1].attrs.append(E("attribute", args[1], doc, parent=args[0],
                                          default=(args[2] if len(args) > 2 else None)))
    elif kind in ("ct_add_test", "ct_add_section"):
        if shown:
            e = E("test" if kind == "ct_add_test" else "section", test_name(args), doc, expect_fail=("EXPECTFAIL" in args),
                  params=[], is_macro=False)
            st.entries.append(e)
            st.pending = e
    elif kind == "add_test":
        if shown:
            st.entries.append(E("ctest", test_name(args), doc, params=ctest_signature(args)))
    elif kind == "option":
        if shown:
            st.entries.append(E("option", args[0], doc, help=args[1], default=(args[2] if len(args) > 2 else None)))
    elif kind == "set":
        if documented:
            st.entries.append(spec_set(args, doc))
    else:
        if documented:
            st.entries.append(E("generic", kind, doc, params=list(args)))
    return st


def test_name(args):
    """the argument following the (exact, upper-case) NAME keyword; the last one wins if NAME occurs several times"""
    name = ""
    for i in range(len(args) - 1):
        if args[i] == "NAME":
            name = args[i + 1]
    return name


def ctest_signature(args):
    """all arguments except the NAME keyword and the one argument following it, by position"""
    out = []
    skip = -1
    pos = -1
    for i in range(len(args) - 1):
        if args[i] == "NAME":
            pos = i
    for i in range(len(args)):
        if pos >= 0 and (i == pos or i == pos + 1):
            continue
        out.append(args[i])
    return out


def spec_set(args, doc, quoted_single=None):
    """C10: type by value count; default = value text as written; a single *quoted* value without its surrounding quotes"""
    vals = args[1:]
    if len(vals) == 0:
        return E("variable", args[0], doc, vtype="UNSET", value=None)
    if len(vals) == 1:
        v = vals[0]
        if quoted_single is None:
            quoted_single = len(v) >= 2 and v[0] == '"' and v[-1] == '"'
        if quoted_single:
            v = v[1:-1]
        return E("variable", args[0], doc, vtype="str", value=v)
    return E("variable", args[0], doc, vtype="list", value=" ".join(vals))


# ------------------------------------------------------------------------------------------ rendering of abstract entries
def render_entry(e):
    k = e.kind
    if k in ("function", "macro"):
        return spec.r_function(e.name, e.params, e.kwargs, e.doc, macro=(k == "macro"))
    if k == "variable":
        return spec.r_variable(e.name, e.doc, e.vtype, str(e.value))
    if k == "option":
        return spec.r_option(e.name, e.doc, e.help, e.default)
    if k == "generic":
        return spec.r_generic(e.name, e.params, e.doc)
    if k == "ctest":
        return spec.r_ctest(e.name, e.params, e.doc)
    if k in ("test", "section"):
        return spec.r_test(e.name, e.expect_fail, e.doc, section=(k == "section"))
    if k == "class":
        return spec.r_class(e.name, e.bases, e.doc,
                            [(m.name, m.params, m.types, m.doc, m.is_macro) for m in e.ctors],
                            [(m.name, m.params, m.types, m.doc, m.is_macro) for m in e.methods],
                            [(a.name, a.doc, a.default) for a in e.attrs],
                            [c.name for c in e.inner])
    if k == "module":
        return spec.r_module(e.name, e.doc)
    raise ValueError(k)


def render_page(st, title, ch, module_name, module=None):
    """module: None, or (name_or_empty, doc) from an '@module' doccomment"""
    if module is not None:
        mname, mdoc = module
        if mname:
            title = mname
        else:
            mname = module_name
        s = spec.heading(title, ch) + spec.r_module(mname, mdoc)
    else:
        s = spec.heading(title, ch) + spec.r_module(module_name, "")
    for e in st.entries:
        s = s + render_entry(e)
    return s


# ------------------------------------------------------------------------------------------ comparison with the real objects
def same_entry(real, e):
    """structural equality of a real documentation object with an abstract entry (type included)"""
    import cminx.documentation_types as dt
    T = {"function": dt.FunctionDocumentation, "macro": dt.MacroDocumentation, "variable": dt.VariableDocumentation,
         "option": dt.OptionDocumentation, "generic": dt.GenericCommandDocumentation, "ctest": dt.CTestDocumentation,
         "test": dt.TestDocumentation, "section": dt.SectionDocumentation, "class": dt.ClassDocumentation,
         "method": dt.MethodDocumentation, "attribute": dt.AttributeDocumentation, "module": dt.ModuleDocumentation}
    if type(real) is not T[e.kind]:
        return False
    if real.name != e.name or real.doc != e.doc:
        return False
    k = e.kind
    if k in ("function", "macro"):
        return list(real.params) == e.params and real.has_kwargs == e.kwargs
    if k == "variable":
        vt = {"str": dt.VarType.STRING, "list": dt.VarType.LIST, "UNSET": dt.VarType.UNSET}[e.vtype]
        return real.type == vt and real.value == e.value
    if k == "option":
        return real.help_text == e.help and real.value == e.default and real.type == "bool"
    if k in ("generic", "ctest"):
        return list(real.params) == e.params
    if k in ("test", "section"):
        return real.expect_fail == e.expect_fail and list(real.params) == e.params and real.is_macro == e.is_macro
    if k == "method":
        return (real.parent_class == e.parent and list(real.param_types) == e.types and list(real.params) == e.params
                and real.is_constructor == e.ctor and real.is_macro == e.is_macro)
    if k == "attribute":
        return real.parent_class == e.parent and real.default_value == e.default
    if k == "class":
        if list(real.superclasses) != e.bases:
            return False
        for rl, al in ((real.constructors, e.ctors), (real.members, e.methods), (real.attributes, e.attrs),
                       (real.inner_classes, e.inner)):
            if len(rl) != len(al):
                return False
            for r, a in zip(rl, al):
                if a.kind == "class":
                    if r.name != a.name:     # inner classes are compared in full as top-level entries; here by identity of name
                        return False
                elif not same_entry(r, a):
                    return False
        return True
    return True
