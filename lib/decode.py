"""C01.e / C05.a: which decoding does Documenter.__init__ apply to the file bytes, and does it round-trip every UTF-8 text?

The codec itself is C code (not symbolically executable); what the real code decides is the (encoding, errors) pair it hands
to the runtime.  That pair is read off a run of the real Documenter.__init__ (codecs.decode hooked), and the round trip
decode(encode_utf8(cp)) == cp is decided by z3 over a bit-vector model of the named codec for EVERY code point; the codec
models are validated against Python's codecs on boundary and seeded random code points.  Texts of any length follow because
decoding a concatenation of valid UTF-8 sequences is the concatenation of the decodings (stated, not solved)."""
import builtins
import io
import random
import time

import vf


def observed_codec():
    """run the real Documenter.__init__ on a stub file and record what it asks the runtime to decode with"""
    import importlib
    FS = importlib.import_module("antlr4.FileStream")
    import codecs as real_codecs
    import cminx.documenter as D
    from cminx.config import Settings
    seen = []

    class Shim:
        def __getattr__(self, n):
            return getattr(real_codecs, n)

        def decode(self, data, encoding="utf-8", errors="strict"):
            seen.append((encoding, errors))
            return real_codecs.decode(data, encoding, errors)
    old_codecs, old_open = FS.codecs, builtins.open
    FS.codecs = Shim()
    builtins.open = lambda *a, **k: io.BytesIO(b"x()\n")
    try:
        D.Documenter("x.cmake", "T", "m", Settings())
    finally:
        FS.codecs = old_codecs
        builtins.open = old_open
    if len(seen) != 1:
        raise RuntimeError("expected exactly one codecs.decode call in Documenter.__init__, saw %r" % (seen,))
    return seen[0]


def z3_roundtrip(encoding, errors):
    """negated round-trip property for one code point; returns (result, witness code point or None, seconds)"""
    import z3
    enc = encoding.lower().replace("_", "-")
    cp = z3.BitVec("cp", 32)
    valid = z3.And(z3.ULE(cp, 0x10FFFF), z3.Not(z3.And(z3.UGE(cp, 0xD800), z3.ULE(cp, 0xDFFF))))
    # UTF-8 encoder (RFC 3629)
    n = z3.If(z3.ULE(cp, 0x7F), 1, z3.If(z3.ULE(cp, 0x7FF), 2, z3.If(z3.ULE(cp, 0xFFFF), 3, 4)))
    b = [None] * 4
    b[0] = z3.If(n == 1, cp, z3.If(n == 2, 0xC0 | z3.LShR(cp, 6), z3.If(n == 3, 0xE0 | z3.LShR(cp, 12), 0xF0 | z3.LShR(cp, 18))))
    b[1] = z3.If(n == 2, 0x80 | (cp & 0x3F), z3.If(n == 3, 0x80 | (z3.LShR(cp, 6) & 0x3F), 0x80 | (z3.LShR(cp, 12) & 0x3F)))
    b[2] = z3.If(n == 3, 0x80 | (cp & 0x3F), 0x80 | (z3.LShR(cp, 6) & 0x3F))
    b[3] = 0x80 | (cp & 0x3F)
    s = z3.Solver()
    s.set("timeout", 60000)
    s.add(valid)
    if enc in ("utf-8", "utf8"):
        def cont(x):
            return (x & 0xC0) == 0x80
        d1 = b[0]
        d2 = ((b[0] & 0x1F) << 6) | (b[1] & 0x3F)
        d3 = ((b[0] & 0x0F) << 12) | ((b[1] & 0x3F) << 6) | (b[2] & 0x3F)
        d4 = ((b[0] & 0x07) << 18) | ((b[1] & 0x3F) << 12) | ((b[2] & 0x3F) << 6) | (b[3] & 0x3F)
        lead = z3.If(z3.ULE(b[0], 0x7F), 1, z3.If((b[0] & 0xE0) == 0xC0, 2, z3.If((b[0] & 0xF0) == 0xE0, 3, z3.If((b[0] & 0xF8) == 0xF0, 4, 0))))
        dec = z3.If(lead == 1, d1, z3.If(lead == 2, d2, z3.If(lead == 3, d3, d4)))
        ok = z3.And(lead == n,
                    z3.Implies(lead >= 2, cont(b[1])), z3.Implies(lead >= 3, cont(b[2])), z3.Implies(lead == 4, cont(b[3])),
                    z3.Implies(lead == 2, z3.UGE(dec, 0x80)), z3.Implies(lead == 3, z3.UGE(dec, 0x800)),
                    z3.Implies(lead == 4, z3.And(z3.UGE(dec, 0x10000), z3.ULE(dec, 0x10FFFF))),
                    z3.Not(z3.And(z3.UGE(dec, 0xD800), z3.ULE(dec, 0xDFFF))))
        # strict: an invalid sequence raises; ignore/replace: it yields something else -- either way not a round trip
        s.add(z3.Or(z3.Not(ok), dec != cp))
    elif enc in ("ascii", "us-ascii", "646"):
        s.add(z3.Or(z3.UGE(b[0], 0x80), b[0] != cp))             # every byte must be < 128 and is its own code point
    elif enc in ("latin-1", "latin1", "iso-8859-1", "iso8859-1", "l1"):
        s.add(z3.Or(n != 1, b[0] != cp))                         # one code point per byte
    else:
        raise RuntimeError("no bit-vector model for codec %r" % encoding)
    t = time.time()
    r = s.check()
    w = s.model()[cp].as_long() if str(r) == "sat" else None
    return str(r), w, time.time() - t


def validate_models():
    """codec models vs python's codecs on boundary + seeded random code points (translator validation)"""
    import z3
    rnd = random.Random(vf.SEED)
    pts = [0, 0x7F, 0x80, 0x7FF, 0x800, 0xD7FF, 0xE000, 0xFFFF, 0x10000, 0x10FFFF] + [rnd.randrange(0, 0x110000) for _ in range(200)]
    n = 0
    for enc in ("utf-8", "ascii", "latin-1"):
        for cp in pts:
            if 0xD800 <= cp <= 0xDFFF:
                continue
            data = chr(cp).encode("utf-8")
            try:
                real_ok = data.decode(enc) == chr(cp)
            except UnicodeDecodeError:
                real_ok = False
            model_ok = (enc == "utf-8") or (cp < 0x80)
            if real_ok != model_ok:
                raise RuntimeError("codec model disagrees with python for %s U+%04X" % (enc, cp))
            n += 1
    return n


def ob_decode(pid, label):
    def fn(work):
        t0 = time.time()
        enc, errors = observed_codec()
        nval = validate_models()
        r, w, secs = z3_roundtrip(enc, errors)
        meta = {"codec_passed_by_Documenter": [enc, errors], "solver_s": round(secs, 3)}
        if r == "unsat":
            return dict(verdict=vf.HOLDS, detail="decode(%s,%s) round-trips the UTF-8 encoding of every code point" % (enc, errors),
                        paths=1, validated=nval, meta=meta, samples=[{"codec": enc, "errors": errors}])
        if r != "sat":
            return dict(verdict=vf.INCONCLUSIVE, detail="z3: " + r, paths=1, meta=meta)
        # replay on the real Documenter
        import cminx.documenter as D
        from cminx.config import Settings
        s = "x(" + chr(w) + ")\n"
        old = builtins.open
        builtins.open = lambda *a, **k: io.BytesIO(s.encode("utf-8"))
        try:
            try:
                got = D.Documenter("x.cmake", "T", "m", Settings()).input_stream.strdata
                bad, why = got != s, "decoded %r" % got
            except Exception as ex:
                bad, why = True, "%s: %s" % (type(ex).__name__, ex)
        finally:
            builtins.open = old
        import json, os
        rep = os.path.join(vf.ROOT, "replays", pid, "decode.json")
        os.makedirs(os.path.dirname(rep), exist_ok=True)
        json.dump({"property": pid, "obligation": label, "file_text": s, "code_point": w, "real": why}, open(rep, "w"))
        if bad:
            return dict(verdict=vf.VIOLATION, replay=rep, paths=1, meta=meta, validated=nval,
                        detail="file containing U+%04X (UTF-8) is not read back by Documenter.__init__ (codec %s): %s" % (w, enc, why))
        return dict(verdict=vf.HARNESS_ERROR, detail="z3 witness U+%04X did not reproduce: %s" % (w, why), paths=1, meta=meta)
    return vf.FN("%s decode: Documenter.__init__ reads back every UTF-8 text" % label, fn,
                 engine="z3 bit-vector model of the codec named by the real code + concrete observation of that name",
                 encodes=["cminx.documenter.Documenter.__init__ (the FileStream(...) call and the encoding it passes)"],
                 symbolic="the code point (all of U+0000..U+10FFFF except surrogates)", bound="one code point; strings by the homomorphism argument")
