"""CrossHair plugin: format(obj, "") for objects with the default __format__ is str(obj) -- without realising obj."""
def _install():
    import crosshair.core as core
    from crosshair.libimpl import builtinslib as bl
    from crosshair.tracers import NoTracing
    orig = bl._format
    def _format2(obj, format_spec=""):
        with NoTracing():
            quiet = getattr(type(obj), "_vf_quiet_format", False)
        if quiet:                      # objects only ever formatted into log messages (harness stub): constant text, nothing realised
            return "<quiet>"
        with NoTracing():
            plain = (isinstance(format_spec, str) and format_spec == ""
                     and not isinstance(obj, (str, bl.AnySymbolicStr, int, float, bool))
                     and type(obj).__format__ is object.__format__)
        if plain:
            return bl._str(obj)
        return orig(obj, format_spec)
    core._PATCH_REGISTRATIONS[format] = _format2

    # CrossHair 0.0.110 models str.expandtabs(n) as replace('\t', ' ' * n): column-unaware, so false statements get *confirmed*
    # (probed). Replace the model by realisation: sound (CPython computes the result for the value of this path); a property that
    # depends on it can then be refuted but no longer be confirmed by exhausting the path tree.
    from crosshair.core import realize

    def _expandtabs(self, tabsize=8):
        return realize(self).expandtabs(realize(tabsize))
    for cls in set([bl.LazyIntSymbolicStr] + [c for c in vars(bl).values() if isinstance(c, type) and issubclass(c, bl.AnySymbolicStr)]):
        if 'expandtabs' in vars(cls) or cls is bl.LazyIntSymbolicStr:
            cls.expandtabs = _expandtabs

    # unicodedata.normalize is C code: a symbolic string would be realised (one arbitrary value per path, nothing decided). Partial model
    # in traced Python instead: a sample of code points / pairs that each form changes is mapped as the real function maps them, every
    # other character stays (for those the model says "unchanged", which is what the real function does for almost all text; a
    # counterexample is replayed concretely before it is reported, so the model cannot cause a false alarm).
    import unicodedata
    _real_norm = unicodedata.normalize
    SAMPLE = [0x212B, 0x2126, 0x0958, 0x0340, 0x0341, 0x037E, 0x0387, 0x2000, 0x2329, 0xF900, 0x00E9, 0x00C5, 0x00FC, 0xFB01, 0x00A0, 0x2460, 0xFF21, 0x1E9B]
    TABLE = {f: [(k, _real_norm(f, chr(k))) for k in SAMPLE if _real_norm(f, chr(k)) != chr(k)] for f in ("NFC", "NFD", "NFKC", "NFKD")}

    def _normalize(form, unistr):
        with NoTracing():
            symbolic = isinstance(unistr, bl.AnySymbolicStr)
            form_c = form if isinstance(form, str) else None
        if not symbolic or form_c not in TABLE:
            return _real_norm(realize(form), realize(unistr))
        out = ""
        prev = -1
        for ch in unistr:
            o = ord(ch)
            rep = None
            for (k, r) in TABLE[form_c]:
                if o == k:
                    rep = r
                    break
            if rep is None and form_c in ("NFC", "NFKC") and o == 0x301 and prev == 0x65:
                out = out[:-1] + chr(0xE9)          # e + COMBINING ACUTE ACCENT composes
                prev = 0xE9
                continue
            out = out + (rep if rep is not None else ch)
            prev = o
        return out
    core._PATCH_REGISTRATIONS[unicodedata.normalize] = _normalize

    # same for unicodedata.east_asian_width: exact on four blocks (checked against the real table when the plugin loads), the real
    # function on the realised character elsewhere
    _real_eaw = unicodedata.east_asian_width
    BLOCKS = [(0x4E00, 0x9FFF), (0x3041, 0x3096), (0xAC00, 0xD7A3), (0xFF01, 0xFF60)]
    BLOCKS = [(lo, hi, _real_eaw(chr(lo))) for (lo, hi) in BLOCKS if len({_real_eaw(chr(c)) for c in range(lo, hi + 1)}) == 1]

    def _eaw(ch):
        with NoTracing():
            symbolic = isinstance(ch, bl.AnySymbolicStr)
        if not symbolic:
            return _real_eaw(ch)
        if len(ch) != 1:
            raise TypeError("need a single Unicode character as parameter")
        o = ord(ch)
        for (lo, hi, w) in BLOCKS:
            if lo <= o <= hi:
                return w
        return _real_eaw(realize(ch))
    core._PATCH_REGISTRATIONS[unicodedata.east_asian_width] = _eaw
_install()
