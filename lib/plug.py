"""CrossHair plugin: format(obj, "") for objects with the default __format__ is str(obj) -- without realising obj."""
def _install():
    import crosshair.core as core
    from crosshair.libimpl import builtinslib as bl
    from crosshair.tracers import NoTracing
    orig = bl._format
    def _format2(obj, format_spec=""):
        with NoTracing():
            quiet = getattr(type(obj), "_vf_quiet_format", False)
        if quiet:                      # objects only ever formatted into log messages (harness stub): constant text, nothing realised
            return "<quiet>"
        with NoTracing():
            plain = (isinstance(format_spec, str) and format_spec == ""
                     and not isinstance(obj, (str, bl.AnySymbolicStr, int, float, bool))
                     and type(obj).__format__ is object.__format__)
        if plain:
            return bl._str(obj)
        return orig(obj, format_spec)
    core._PATCH_REGISTRATIONS[format] = _format2

    # CrossHair 0.0.110 models str.expandtabs(n) as replace('\t', ' ' * n): column-unaware, so false statements get *confirmed*
    # (probed). Replace the model by realisation: sound (CPython computes the result for the value of this path); a property that
    # depends on it can then be refuted but no longer be confirmed by exhausting the path tree.
    from crosshair.core import realize

    def _expandtabs(self, tabsize=8):
        return realize(self).expandtabs(realize(tabsize))
    for cls in set([bl.LazyIntSymbolicStr] + [c for c in vars(bl).values() if isinstance(c, type) and issubclass(c, bl.AnySymbolicStr)]):
        if 'expandtabs' in vars(cls) or cls is bl.LazyIntSymbolicStr:
            cls.expandtabs = _expandtabs
_install()
