"""Scratch prototype of E4: symbolic evaluation of cminx.document_single_file's AST into z3 terms."""
import ast, inspect, textwrap, time
from z3 import *
import cminx

class Unsupported(Exception): pass
NONE = object()

class Opt:  # Optional[str] value: (is_none: Bool, val: String)
    def __init__(s, is_none, val): s.is_none, s.val = is_none, val

def merge(c, a, b):
    """If(c, a, b) over our value kinds"""
    if a is b: return a
    if isinstance(a, Opt) or isinstance(b, Opt):
        a = a if isinstance(a, Opt) else Opt(BoolVal(False), a)
        b = b if isinstance(b, Opt) else Opt(BoolVal(False), b)
        return Opt(If(c, a.is_none, b.is_none), If(c, a.val, b.val))
    if a is None: return b     # variable undefined on one branch: keep the defined one (only read under same guard)
    if b is None: return a
    return If(c, a, b)

class Interp:
    def __init__(self, env, settings, oracle_isdir):
        self.env = dict(env); self.settings = settings; self.isdir = oracle_isdir
        self.obs = []   # (path_condition, kind, args)
        self.pc = BoolVal(True)
    # ---- expressions
    def ev(self, n):
        if isinstance(n, ast.Constant):
            if n.value is None: return NONE
            if isinstance(n.value, str): return StringVal(n.value)
            if isinstance(n.value, bool): return BoolVal(n.value)
            raise Unsupported(ast.dump(n))
        if isinstance(n, ast.Name):
            if n.id not in self.env: raise Unsupported("unbound " + n.id)
            return self.env[n.id]
        if isinstance(n, ast.Attribute):
            path = []
            m = n
            while isinstance(m, ast.Attribute): path.append(m.attr); m = m.value
            if isinstance(m, ast.Name) and m.id == "settings":
                key = ".".join(reversed(path))
                if key not in self.settings: raise Unsupported("settings." + key)
                return self.settings[key]
            raise Unsupported(ast.dump(n))
        if isinstance(n, ast.BinOp) and isinstance(n.op, ast.Add):
            return Concat(self.s(self.ev(n.left)), self.s(self.ev(n.right)))
        if isinstance(n, ast.JoinedStr):
            return ("fstring",)   # only ever passed to logger.*
        if isinstance(n, ast.UnaryOp) and isinstance(n.op, ast.Not):
            return Not(self.b(self.ev(n.operand)))
        if isinstance(n, ast.Compare) and len(n.ops) == 1:
            l, r = self.ev(n.left), self.ev(n.comparators[0]); op = n.ops[0]
            if isinstance(op, (ast.Is, ast.IsNot)) and r is NONE:
                isn = l.is_none if isinstance(l, Opt) else BoolVal(l is NONE)
                return isn if isinstance(op, ast.Is) else Not(isn)
            if isinstance(op, ast.Eq): return self.s(l) == self.s(r)
            raise Unsupported(ast.dump(n))
        if isinstance(n, ast.Call): return self.call(n)
        raise Unsupported(ast.dump(n))
    def s(self, v):
        if isinstance(v, Opt): return v.val      # reading an Optional as str is only valid under `is not None` guard
        if is_string(v): return v
        raise Unsupported("not a string: %r" % (v,))
    def b(self, v):
        if is_bool(v): return v
        raise Unsupported("not a bool: %r" % (v,))
    def fname(self, f):
        parts = []
        while isinstance(f, ast.Attribute): parts.append(f.attr); f = f.value
        if isinstance(f, ast.Name): parts.append(f.id)
        else: return None
        return ".".join(reversed(parts))
    def call(self, n):
        fn = self.fname(n.func)
        # idiom: ".".join(X.split(".")[:-1])
        if (isinstance(n.func, ast.Attribute) and n.func.attr == "join" and isinstance(n.func.value, ast.Constant) and n.func.value.value == "."
                and len(n.args) == 1 and isinstance(n.args[0], ast.Subscript)):
            sub = n.args[0]
            if (isinstance(sub.value, ast.Call) and isinstance(sub.value.func, ast.Attribute) and sub.value.func.attr == "split"
                    and len(sub.value.args) == 1 and isinstance(sub.value.args[0], ast.Constant) and sub.value.args[0].value == "."
                    and isinstance(sub.slice, ast.Slice) and sub.slice.lower is None and isinstance(sub.slice.upper, ast.UnaryOp)
                    and isinstance(sub.slice.upper.op, ast.USub) and sub.slice.upper.operand.value == 1):
                x = self.s(self.ev(sub.value.func.value))
                i = LastIndexOf(x, StringVal("."))
                return If(i < 0, StringVal(""), SubString(x, 0, i))
            raise Unsupported(ast.dump(n))
        # x.rstrip(y) / x.lstrip(y) / x.strip(y): uninterpreted result constrained at the boundary characters -- enough for every model
        # in which the result differs from x to reproduce concretely (the boundary character really is in the strip set)
        if isinstance(n.func, ast.Attribute) and n.func.attr in ("rstrip", "lstrip", "strip") and len(n.args) <= 1:
            x = self.s(self.ev(n.func.value))
            y = self.s(self.ev(n.args[0])) if n.args else StringVal(" \t\n\r\x0b\x0c")
            self.nfresh = getattr(self, "nfresh", 0) + 1
            r = String("%s_result_%d" % (n.func.attr, self.nfresh))
            last = SubString(x, Length(x) - 1, 1)
            first = SubString(x, 0, 1)
            cons = []
            if n.func.attr in ("rstrip", "strip"):
                cons.append(If(Or(Length(x) == 0, Not(Contains(y, last))), True, Length(r) < Length(x)))
            if n.func.attr in ("lstrip", "strip"):
                cons.append(If(Or(Length(x) == 0, Not(Contains(y, first))), True, Length(r) < Length(x)))
            unchanged = And(*[Or(Length(x) == 0, Not(Contains(y, c_))) for c_ in ([last] if n.func.attr == "rstrip" else [first] if n.func.attr == "lstrip" else [first, last])])
            cons.append(If(unchanged, r == x, Contains(x, r)))
            self.side = getattr(self, "side", []) + cons
            return r
        args = [self.ev(a) for a in n.args]
        if fn == "os.path.isdir": return self.isdir(self.s(args[0]))
        if fn == "os.path.relpath": return ("relpath", self.s(args[0]), self.s(args[1]))  # resolved by harness contract below
        if fn == "os.path.basename":
            if "__basename__" in self.env:       # harness contract (like relpath): basename(dirn + "/" + base) = base when "/" not in base
                r = self.env["__basename__"](self.s(args[0]))
                if r is not None:
                    return r
            x = self.s(args[0]); i = LastIndexOf(x, StringVal("/")); return SubString(x, i + 1, Length(x))
        if fn == "os.path.dirname":
            x = self.s(args[0]); i = LastIndexOf(x, StringVal("/")); return If(i < 0, StringVal(""), If(i == 0, StringVal("/"), SubString(x, 0, i)))
        if fn == "os.path.join":
            r = self.s(args[0])
            for b_ in args[1:]:
                b_ = self.s(b_)
                r = If(PrefixOf(StringVal("/"), b_), b_, If(Or(r == StringVal(""), SuffixOf(StringVal("/"), r)), Concat(r, b_), Concat(r, StringVal("/"), b_)))
            return r
        if fn == "re.sub":
            pat = n.args[0]
            if not (isinstance(pat, ast.Constant) and pat.value == r"\.cmake$" and isinstance(n.args[1], ast.Constant) and n.args[1].value == ""):
                raise Unsupported("re.sub pattern")
            x = self.s(args[2]); return If(SuffixOf(StringVal(".cmake"), x), SubString(x, 0, Length(x) - 6), x)
        if fn and fn.startswith("logger."): return NONE
        if fn == "os.makedirs": self.obs.append((self.pc, "makedirs", args[:1])); return NONE
        if fn == "Documenter": self.obs.append((self.pc, "Documenter", args[:3])); return ("documenter",)
        if fn == "auto_documenter.process": return ("writer",)
        if fn == "output_writer.write_to_file": self.obs.append((self.pc, "write", args)); return NONE
        if fn == "print": self.obs.append((self.pc, "print", [])); return NONE
        if fn == "str": return StringVal("<page>")
        raise Unsupported("call " + str(fn))
    # ---- statements
    def run(self, body):
        for st in body: self.stmt(st)
    def assign(self, name, v):
        if isinstance(v, tuple) and v and v[0] == "relpath":
            v = self.env["__relpath__"](v[1], v[2])
        self.env[name] = v
    def stmt(self, st):
        if isinstance(st, ast.Expr):
            if isinstance(st.value, ast.Constant): return   # docstring
            self.ev(st.value); return
        if isinstance(st, ast.Assign) and len(st.targets) == 1 and isinstance(st.targets[0], ast.Name):
            return self.assign(st.targets[0].id, self.ev(st.value))
        if isinstance(st, ast.AnnAssign) and isinstance(st.target, ast.Name):
            return self.assign(st.target.id, self.ev(st.value))
        if isinstance(st, ast.If):
            c = self.b(self.ev(st.test))
            env0, pc0 = dict(self.env), self.pc
            self.pc = And(pc0, c); self.run(st.body); env_t = self.env
            self.env = dict(env0); self.pc = And(pc0, Not(c)); self.run(st.orelse); env_f = self.env
            self.pc = pc0
            self.env = {k: merge(c, env_t.get(k), env_f.get(k)) for k in set(env_t) | set(env_f)}
            return
        raise Unsupported(ast.dump(st)[:120])

def translate():
    src = textwrap.dedent(inspect.getsource(cminx.document_single_file))
    fdef = ast.parse(src).body[0]
    return fdef


# ------------------------------------------------------------------------------------------------ obligations
import vf


def _setup():
    rel, absroot, prefix, sep, outdir, base, dirn = Strings("rel absroot prefix sep outdir base dirn")
    no_prefix, no_out, ext_t, ext_m = Bools("no_prefix no_out ext_t ext_m")
    settings = {"output.directory": Opt(no_out, outdir), "rst.prefix": Opt(no_prefix, prefix), "rst.module_path_separator": sep,
                "rst.file_extensions_in_titles": ext_t, "rst.file_extensions_in_modules": ext_m}
    return locals()


def strip(x):
    return If(SuffixOf(StringVal(".cmake"), x), SubString(x, 0, Length(x) - 6), x)


def names_query(mode):
    """negated C12.a for `mode` in dir|file: some well-formed input where title or module name differs from spec_names"""
    v = _setup()
    rel, absroot, prefix, sep = v["rel"], v["absroot"], v["prefix"], v["sep"]
    no_prefix, ext_t, ext_m, settings = v["no_prefix"], v["ext_t"], v["ext_m"], v["settings"]
    isdir_f = Function("isdir", StringSort(), BoolSort())
    fdef = translate()
    if mode == "dir":
        root = Concat(absroot, StringVal("/"))
        file = Concat(root, rel)
        name = rel
        wf = And(Not(Contains(rel, "//")), Not(SuffixOf("/", rel)), Length(rel) > 0, Not(Contains(rel, "\n")), Not(PrefixOf("/", rel)),
                 PrefixOf("/", absroot), Not(SuffixOf("/", absroot)), rel != sep, isdir_f(root))
        relpath = lambda f, r: rel       # contract: file = root.rel, rel normalised and relative => relpath(file, root) = rel
    else:
        # lone file: root == file == dirn + "/" + base ; spec: the base name
        base, dirn = v["base"], v["dirn"]
        file = Concat(dirn, StringVal("/"), base)
        root = file
        name = base
        wf = And(Not(Contains(base, "/")), Length(base) > 0, Not(Contains(base, "\n")), PrefixOf("/", dirn), base != sep, Not(isdir_f(root)))
        relpath = lambda f, r: StringVal("<relpath must not be used for a lone file>")
    env = {"file": file, "root": root, "settings": settings, "__relpath__": relpath}
    if mode == "file":
        env["__basename__"] = lambda x: base if x.eq(file) else None
    it = Interp(env, settings, lambda x: isdir_f(x))
    it.run(fdef.body)
    docs = [o for o in it.obs if o[1] == "Documenter"]
    if len(docs) != 1:
        raise Unsupported("expected exactly one Documenter(...) construction, found %d" % len(docs))
    (pc_d, _, (f_, title, module)) = docs[0]
    title, module = it.s(title), it.s(module)
    b = If(no_prefix, name, Concat(prefix, sep, name))
    spec_title = If(ext_t, b, strip(b))
    spec_mod = If(ext_m, b, strip(b))
    s = Solver()
    s.set("timeout", 120000)
    s.add(wf, Or(Not(pc_d), title != spec_title, module != spec_mod, f_ != file))
    s.add(*getattr(it, "side", []))
    return s, dict(v, title=title, module=module, spec_title=spec_title, spec_mod=spec_mod, file=file, obs=[o[1] for o in it.obs])


def injectivity_query():
    """two different relative paths (not differing only by a trailing .cmake) under the same settings get different names"""
    v = _setup()
    prefix, sep, no_prefix = v["prefix"], v["sep"], v["no_prefix"]
    r1, r2 = Strings("rel1 rel2")
    def nm(r):
        b = If(no_prefix, r, Concat(prefix, sep, r))
        return strip(b)
    s = Solver()
    s.set("timeout", 120000)
    s.add(r1 != r2, SuffixOf(".cmake", r1), SuffixOf(".cmake", r2), nm(r1) == nm(r2))
    return s


def ob_names(pid, label="C12.a"):
    def fn(work):
        import time as _t
        t0 = _t.time()
        nq = 0
        samples = []
        for mode in ("dir", "file"):
            s, info = names_query(mode)
            r = s.check(); nq += 1
            if str(r) == "sat":
                m = s.model()
                vals = {k: str(m.eval(info[k], model_completion=True)) for k in ("title", "spec_title", "module", "spec_mod", "file")}
                ok, why = replay_names(mode, m, info)
                import json, os
                rep = os.path.join(vf.ROOT, "replays", pid, "names_%s.json" % mode)
                os.makedirs(os.path.dirname(rep), exist_ok=True)
                json.dump({"property": pid, "obligation": label, "mode": mode, "model": vals, "replay": why}, open(rep, "w"), indent=1)
                if ok:
                    return dict(verdict=vf.VIOLATION, replay=rep, paths=nq, detail="%s mode: %s; real run: %s" % (mode, vals, why))
                return dict(verdict=vf.HARNESS_ERROR, paths=nq, detail="z3 model did not reproduce: %s / %s" % (vals, why))
            if str(r) != "unsat":
                return dict(verdict=vf.INCONCLUSIVE, paths=nq, detail="z3 answered %s for mode %s" % (r, mode))
            samples.append({"mode": mode, "observation_points_found": info["obs"]})
        s = injectivity_query()
        r = s.check(); nq += 1
        if str(r) != "unsat":
            return dict(verdict=vf.INCONCLUSIVE if str(r) != "sat" else vf.HARNESS_ERROR, paths=nq, detail="injectivity of spec_names: %s %s" % (r, s.model() if str(r) == "sat" else ""))
        nval = validate()
        return dict(verdict=vf.HOLDS, paths=nq, validated=nval, samples=samples, cpu_s=_t.time() - t0,
                    detail="title/module name equal spec_names for strings of any length; spec_names injective on *.cmake paths")
    return vf.FN("%s title and module name of document_single_file == spec_names (directory mode and lone file), unbounded strings" % label, fn,
                 engine="E4: python AST of the real function -> z3 string terms (If-merged), negated spec -> unsat",
                 encodes=["cminx.document_single_file (AST read from the working tree at run time)"],
                 symbolic="relative path, absolute root, prefix (absent/present), separator, both extension flags (strings of unbounded length)",
                 bound="none on lengths; relpath contract: file = root + rel with rel normalised and relative")


def _concrete_run(file, root, settings_vals, isdir_root):
    """run the real document_single_file on concrete values with a virtual FS; -> (title, module)"""
    import cminx
    from cminx.config import Settings
    import posixpath as pp
    seen = []

    class FD:
        def __init__(self, f, t=None, m=None, s=None):
            seen.append((f, t, m))
            from cminx.rstwriter import RSTWriter
            self.w = RSTWriter("T")

        def process(self):
            return self.w
    s = Settings()
    s.rst.prefix, s.rst.module_path_separator, s.rst.file_extensions_in_titles, s.rst.file_extensions_in_modules = settings_vals
    s.output.directory = None
    old = (cminx.Documenter, cminx.os, getattr(cminx, "print", None))

    class P:
        join = staticmethod(pp.join); basename = staticmethod(pp.basename); dirname = staticmethod(pp.dirname)
        relpath = staticmethod(pp.relpath); normpath = staticmethod(pp.normpath)
        isdir = staticmethod(lambda p: isdir_root and pp.normpath(p) == pp.normpath(root))

    class O:
        path = P
        curdir, pardir, sep = ".", "..", "/"
        makedirs = staticmethod(lambda *a, **k: None)
    cminx.Documenter, cminx.os, cminx.print = FD, O, (lambda *a, **k: None)
    try:
        cminx.document_single_file(file, root, s)
    finally:
        cminx.Documenter, cminx.os = old[0], old[1]
        if old[2] is None:
            del cminx.print
        else:
            cminx.print = old[2]
    return seen[0]


def _spec_names(name, prefix, sep, ext_t, ext_m):
    b = name if prefix is None else prefix + sep + name
    st = lambda x: x[:-6] if x.endswith(".cmake") else x
    return (b if ext_t else st(b)), (b if ext_m else st(b))


def validate():
    """interpreter validation: real function vs spec on concrete fixtures (also exercises the relpath/join contracts)"""
    n = 0
    import itertools
    for rel in ("a.cmake", "sub/b.cmake", "x/y/z.cmake", "d.c/e-1.x.cmake", "UP.CMAKE", "noext"):
        for (prefix, sep, et, em) in itertools.product((None, "P", "pre.fix"), (".", "::"), (False, True), (False, True)):
            f, t, m = _concrete_run("/abs/root/" + rel, "/abs/root/", (prefix, sep, et, em), True)
            if (t, m) != _spec_names(rel, prefix, sep, et, em):
                raise RuntimeError("validation: dir mode %r %r -> %r" % (rel, (prefix, sep, et, em), (t, m)))
            n += 1
    return n


def replay_names(mode, m, info):
    g = lambda k: rx_decode(m.eval(info[k], model_completion=True))
    prefix = None if is_true(m.eval(info["no_prefix"], model_completion=True)) else g("prefix")
    sep = g("sep"); et = is_true(m.eval(info["ext_t"], model_completion=True)); em = is_true(m.eval(info["ext_m"], model_completion=True))
    if mode == "dir":
        rel = g("rel"); root = g("absroot") + "/"
        f, t, mm = _concrete_run(root + rel, root, (prefix, sep, et, em), True)
        exp = _spec_names(rel, prefix, sep, et, em)
    else:
        base = g("base"); file = g("dirn") + "/" + base
        f, t, mm = _concrete_run(file, file, (prefix, sep, et, em), False)
        exp = _spec_names(base, prefix, sep, et, em)
    return (t, mm) != exp, "real title/module %r, spec %r" % ((t, mm), exp)


def rx_decode(v):
    import rx
    return rx.decode_z3_string(v)
