"""Abstract programs: a list of commands (block_or_None, cleaned_doc, name_as_written, [(token_type, text), ...]).

real_page()  : real tree contexts -> real ParseTreeWalker -> real DocumentationAggregator -> real Documenter.process_docs -> real RSTWriter
spec_page()  : delta folded over the commands -> spec_render
Lexer/parser are bypassed on purpose (drive the unit): what they produce is the subject of engine E2.
"""
import hc
import delta
from antlr4 import ParseTreeWalker, InputStream
import cminx.documenter as D
from cminx.config import Settings

D.FileStream = lambda f, *a, **k: InputStream("")      # stub: no file is read in these harnesses


def cmd(name, args, block=None, cleaned=""):
    """args: list of texts (token type Identifier) or (type, text) pairs"""
    def conv(a):
        if isinstance(a, list):
            return [conv(x) for x in a]
        return a if isinstance(a, tuple) else (hc.ID, a)
    return (block, cleaned if block is not None else "", name, [conv(a) for a in args])


def real_documenter(settings=None, title="T", module_name="m"):
    return D.Documenter("x.cmake", title, module_name, settings if settings is not None else Settings())


def real_walk(doc, cmds, module_block=None, lines=None, argpos=None):
    tree = hc.file_ctx([(c[0], c[2], c[3]) for c in cmds], module_doc=module_block, lines=lines, argpos=argpos)
    ParseTreeWalker().walk(doc.aggregator, tree)
    return doc.aggregator


def real_page(cmds, settings=None, title="T", module_name="m", module_block=None, lines=None, argpos=None):
    doc = real_documenter(settings, title, module_name)
    real_walk(doc, cmds, module_block, lines, argpos)
    doc.process_docs(doc.aggregator.documented)
    return doc.writer.to_text()


def arg_text(a):
    """an argument as written; a parenthesised group = its arguments separated by single blanks (inter-token layout is not
    part of the token sequence: C04)"""
    if isinstance(a, list):
        return "(" + " ".join(arg_text(x) for x in a) + ")"
    return a[1]


def spec_state(cmds, flags=delta.DEFAULT_FLAGS, trigger=":keyword", strip=delta.no_strip):
    st = delta.State()
    for (block, cleaned, name, args) in cmds:
        delta.step(st, block is not None, cleaned, name, [arg_text(a) for a in args], flags, trigger, strip)
    return st


def spec_page(cmds, title="T", ch="#", module_name="m", module=None, **kw):
    return delta.render_page(spec_state(cmds, **kw), title, ch, module_name, module)


# ---------------------------------------------------------------------------- one documented command of each documentable kind
KINDS = ["function", "macro", "set", "option", "cpp_class", "cpp_attr", "cpp_member", "cpp_constructor", "ct_add_test",
         "ct_add_section", "add_test", "generic"]


def documented_unit(kind, block, cleaned, sfx):
    """commands that make one well-formed unit around a documented command of `kind` (names made distinct by sfx)"""
    c = lambda name, args, doc=False: cmd(name, args, block if doc else None, cleaned if doc else "")
    if kind == "function":
        return [c("function", ["f" + sfx, "a"], True), c("endfunction", [])]
    if kind == "macro":
        return [c("macro", ["g" + sfx, "a", "b"], True), c("endmacro", [])]
    if kind == "set":
        return [c("set", ["V" + sfx, (hc.QUO, '"q"')], True)]
    if kind == "option":
        return [c("option", ["O" + sfx, (hc.QUO, '"help"'), "ON"], True)]
    if kind == "cpp_class":
        return [c("cpp_class", ["K" + sfx, "B"], True), c("cpp_end_class", [])]
    if kind == "cpp_attr":
        # (CMakePP type names are case-insensitive: members may spell their class differently from the cpp_class() argument)
        return [c("cpp_class", ["K" + sfx]), c("cpp_attr", ["k" + sfx, "at", "dv"], True), c("cpp_end_class", [])]
    if kind == "cpp_member":
        return [c("cpp_class", ["K" + sfx]), c("cpp_member", ["m", "k" + sfx, "int", "str"], True),
                c("function", ["impl", "self", "x", "y"]), c("endfunction", []), c("cpp_end_class", [])]
    if kind == "cpp_constructor":
        return [c("cpp_class", ["K" + sfx]), c("cpp_constructor", ["CTOR", "K" + sfx, "int"], True),
                c("macro", ["impl", "self", "x"]), c("endmacro", []), c("cpp_end_class", [])]
    if kind == "ct_add_test":
        return [c("ct_add_test", ["NAME", "t" + sfx], True), c("function", ["${t" + sfx + "}"]), c("endfunction", [])]
    if kind == "ct_add_section":
        return [c("ct_add_section", ["NAME", "s" + sfx, "EXPECTFAIL"], True), c("function", ["${s" + sfx + "}"]),
                c("endfunction", [])]
    if kind == "add_test":
        return [c("add_test", ["NAME", "ct" + sfx, "COMMAND", "x"], True)]
    if kind == "generic":
        return [c("message", ["hi", (hc.QUO, '"there"')], True)]
    raise ValueError(kind)
