"""Obligations of engine E2 (grammar layer): C01.d, C02.d, C04.a/b, C05.b/c/e, C06.a/b, C12.d and translator validation."""
import ast
import glob
import json
import os
import random
import time

import e2
import rx
import vf
from rx import EPS, EMPTY, cat, alt, star, plus, opt, and_, not_, lit, chars, notchars, rng, REALC, EOFC, ANYC, ALL, ALLE

_ctx = {}


def ctx(D):
    if D not in _ctx:
        lex = e2.LexerModel(D)
        _ctx[D] = dict(lex=lex, ref=e2.Reference(lex, D), par=e2.ParserModel(D), q=e2.Queries())
    return _ctx[D]


WFP = cat(ALL, opt(EOFC))        # prefixes of well-formed inputs: real text, then at most the end-of-input sentinel
ENC_LEX = ["cminx/parser/CMakeLexer.py: serialized lexer ATN (all token rules, fragment rules inlined, skip actions)"]
ENC_PAR = ["cminx/parser/CMakeParser.py: serialized parser ATN (cmake_file, documented_command, documented_module, "
           "bracket_doccomment, command_invocation, single_argument, compound_argument)"]


def _strip(w):
    return w.replace(chr(rx.EOFCP), "")


def _finish(pid, name, work, bad, unknown, q0, n0, t0, q, samples, validated=0, errors=()):
    """bad: list of (query name, witness, reproduced?, text)"""
    res = dict(paths=q.n - n0, cpu_s=time.time() - t0, samples=samples[:3], validated=validated,
               meta={"solver_s": round(q.secs - q0, 2), "queries": q.n - n0})
    if errors:
        res.update(verdict=vf.HARNESS_ERROR, detail="; ".join(errors)[:600])
        return res
    real = [b for b in bad if b[2]]
    if real:
        rep_dir = os.path.join(vf.ROOT, "replays", pid)
        os.makedirs(rep_dir, exist_ok=True)
        rep = os.path.join(rep_dir, name.replace(" ", "_").replace("/", "_") + ".json")
        json.dump({"property": pid, "obligation": name, "engine": "E2", "witnesses": [(b[0], b[1], b[3]) for b in real]},
                  open(rep, "w"), indent=1)
        res.update(verdict=vf.VIOLATION, replay=rep,
                   detail="; ".join("%s: input %r -> %s" % (b[0], b[1], b[3]) for b in real[:3]))
        return res
    if bad:
        res.update(verdict=vf.HARNESS_ERROR, detail="solver witness did not reproduce on the real lexer/parser (encoding problem): "
                   + "; ".join("%s: %r (%s)" % (b[0], b[1], b[3]) for b in bad[:3]))
        return res
    if unknown:
        res.update(verdict=vf.INCONCLUSIVE, detail="solver answered unknown for: " + ", ".join(unknown[:5]))
        return res
    res.update(verdict=vf.HOLDS, detail="all queries unsat")
    return res


# ------------------------------------------------------------------------------------------------ translator validation
ALPH = list('#[]=()"\\ \t\n\rab1;$@<>_') + ["é", "#[[", "]]", "#]]", "#[[[", "@module", "\\n", '\\"', "#[=[", "]=]", "𐀀"]


def corpus(tier, D=2):
    import re as _re
    deep = _re.compile(r"\[={%d,}\[" % (D + 1))       # bracket level > D is outside the model's bound
    out = []
    try:
        src = open(vf.REPO + "/tests/unit_tests/test_lexer.py", encoding="utf-8").read()
        for n in ast.walk(ast.parse(src)):
            if isinstance(n, ast.Constant) and isinstance(n.value, str) and 0 < len(n.value) < 4000:
                out.append(n.value)
    except OSError:
        pass
    files = sorted(glob.glob(vf.REPO + "/tests/**/*.cmake", recursive=True)) + sorted(glob.glob(vf.REPO + "/cmake/*.cmake"))
    if tier == "thorough":
        files += sorted(glob.glob("/usr/share/cmake*/Modules/*.cmake"))[:120]
    for f in files:
        try:
            s = open(f, encoding="utf-8").read()
        except (OSError, UnicodeDecodeError):
            continue
        if len(s) < (20000 if tier == "thorough" else 12000) and not deep.search(s):
            out.append(s)
    rnd = random.Random(vf.SEED)
    for _ in range(4000 if tier == "thorough" else 1500):
        out.append("".join(rnd.choice(ALPH) for _ in range(rnd.randint(1, 10))))
    return out


def compare(lex, s):
    a = e2.real_trace(s, lex.ttype_names)
    b = lex.trace(s)
    return a == b      # same tokens (skipped ones included), same boundaries, same first-error position


def ob_validate(D, tier, extra_witnesses=()):
    def fn(work):
        c = ctx(D)
        lex = c["lex"]
        _names(lex)
        t0 = time.time()
        n = 0
        errs = []
        samples = []
        for s in corpus(tier, D):
            n += 1
            if not compare(lex, s):
                errs.append("model and real lexer disagree on %r: real %r model %r" % (s[:60], e2.real_trace(s, lex.ttype_names), lex.trace(s)))
                if len(errs) > 2:
                    break
        # z3 models of every effective rule language, pushed through both
        q = c["q"]
        for name in lex.order:
            r, w = q.witness("witness " + name, and_(lex.eff[name], WFP))
            if w is not None:
                n += 1
                s = _strip(w)
                if len(samples) < 3:
                    samples.append({"rule": name, "z3_model": s[:80]})
                if not compare(lex, s):
                    errs.append("witness of %s: model and real lexer disagree on %r" % (name, s))
        if errs:
            return dict(verdict=vf.HARNESS_ERROR, detail="; ".join(errs)[:900], validated=n, paths=n, samples=samples)
        return dict(verdict=vf.HOLDS, detail="%d strings tokenised identically by the real CMakeLexer and the regex model" % n,
                    validated=n, paths=n, samples=samples, cpu_s=time.time() - t0)
    return vf.FN("E2 translator validation (lexer ATN -> regex model vs real CMakeLexer) D=%d" % D, fn, engine="concrete differential run (supports E2; not a verdict on the property)",
                 encodes=ENC_LEX, symbolic="-", bound="repo test strings, repo *.cmake files, seeded random strings, one z3 model per rule")


def _names(lex):
    if not hasattr(lex, "ttype_names"):
        lex.ttype_names = dict(lex.ttype)
    return lex.ttype_names


# ------------------------------------------------------------------------------------------------ one-step maximal munch
def _classes(ref, lex):
    """reference classes incl. the split of line comments by terminator"""
    T = dict(ref.T)
    lc, SKIP, _ = T.pop("line_comment")
    nonl = notchars("\r\n")
    body = cat(lit("#"), and_(star(nonl), not_(cat(ref.any_bopen, ALL))))
    T["line_comment_nl"] = (cat(body, alt(lit("\n"), lit("\r\n"))), SKIP, REALC)
    T["line_comment_cr"] = (cat(body, lit("\r")), SKIP, notchars("\n"))
    T["line_comment_eof"] = (cat(body, EOFC), SKIP, None)
    return T


def _replay_first(lex, w, Tr, cls):
    """Does the real lexer, on the witness, fail to produce a first token of class `cls` whose text is in Tr?"""
    s = _strip(w)
    tr, end = e2.real_trace(s, _names(lex))
    if not tr:
        return True, "real lexer: no token (%s)" % end
    k, a, b = tr[0]
    text = s[a:b] + (chr(rx.EOFCP) if (b == len(s) and w.endswith(chr(rx.EOFCP)) and k == "SKIP") else "")
    okc = (k == "SKIP" and set(cls) <= set(lex.skip)) or k in cls
    okt = rx.matches(Tr, text) or rx.matches(Tr, s[a:b])
    if okc and okt:
        return False, "real lexer yields %s %r as the reference says" % (k, s[a:b])
    return True, "real lexer yields %s %r, reference expects one %s token" % (k, s[a:b], "/".join(cls))


def ob_munch(pid, D, only=None, label="C05.b"):
    def fn(work):
        c = ctx(D)
        lex, ref, q = c["lex"], c["ref"], c["q"]
        t0, q0, n0 = time.time(), q.secs, q.n
        bad, unknown, samples = [], [], []
        T = _classes(ref, lex)
        for tn, (Tr, cls, first) in T.items():
            if only and not only(tn):
                continue
            U = alt(*[lex.eff[r] for r in cls])
            qs = [("coverage %s" % tn, and_(Tr, not_(U), WFP))]
            if first is not None:
                fol = alt(EOFC, cat(first, ALLE))
                for rn in lex.order:
                    qs.append(("longer-match %s by %s" % (tn, rn), and_(lex.eff[rn], cat(Tr, fol), WFP)))
            for i, rn in enumerate(lex.order):
                if rn in cls:
                    continue
                earlier = alt(*[lex.eff[a] for a in lex.order[:i] if a in cls])
                qs.append(("tie-break %s taken by %s" % (tn, rn), and_(Tr, lex.eff[rn], not_(earlier), WFP)))
            for (name, r) in qs:
                res, w = q.empty(name, r)
                if res == "sat":
                    rep, txt = _replay_first(lex, w, Tr, cls)
                    bad.append((name, _strip(w), rep, txt))
                elif res != "unsat":
                    unknown.append(name)
            r_, w = q.witness("sample " + tn, and_(Tr, WFP))
            if w is not None and len(samples) < 3:
                samples.append({"reference_class": tn, "z3_member": _strip(w)[:60]})
        return _finish(pid, label, work, bad, unknown, q0, n0, t0, q, samples)
    return vf.FN("%s one-step maximal munch vs cmake-language(7), bracket level <= %d" % (label, D), fn,
                 engine="z3 regex membership (InRe/Complement/Intersect), one string variable per query", encodes=ENC_LEX,
                 symbolic="the token text and the text that follows it (unbounded length, any code point)",
                 bound="bracket level <= %d; legacy unquoted forms excluded" % D)


# ------------------------------------------------------------------------------------------------ C01.d canonical doccomment
def canon_language(module=False):
    nonl = notchars("\r\n")
    text = and_(star(nonl), not_(cat(ALL, lit("]]"), ALL)))
    ind = star(chars(" \t"))
    line = cat(lit("\n"), ind, alt(cat(lit("# "), text), lit("#")))
    head = lit("#[[[")
    if module:
        head = cat(lit("#[[[ @module"), opt(cat(lit(" "), plus(alt(rng("A", "Z"), rng("a", "z"), rng("0", "9"), chars("_.-"))))))
    return cat(head, star(line), lit("\n"), ind, lit("#]]"))


def ob_canon(pid, D, module=False, label="C01.d"):
    def fn(work):
        c = ctx(D)
        lex, q = c["lex"], c["q"]
        t0, q0, n0 = time.time(), q.secs, q.n
        bad, unknown, samples = [], [], []
        CAN = canon_language(module)
        want = "Module_docstring" if module else "Docstring"
        fol = alt(EOFC, cat(chars(" \t\r\n"), ALLE))
        qs = [("coverage canonical block in %s" % want, and_(CAN, not_(lex.eff[want]), WFP))]
        for rn in lex.order:
            qs.append(("longer-match canonical block by %s" % rn, and_(lex.eff[rn], cat(CAN, fol), WFP)))
        for i, rn in enumerate(lex.order):
            if rn == want:
                break
            qs.append(("tie-break canonical block taken by %s" % rn, and_(CAN, lex.eff[rn], WFP)))
        for (name, r) in qs:
            res, w = q.empty(name, r)
            if res == "sat":
                rep, txt = _replay_first(lex, w, CAN, [want])
                bad.append((name, _strip(w), rep, txt))
            elif res != "unsat":
                unknown.append(name)
        r_, w = q.witness("sample", and_(CAN, WFP))
        if w:
            samples.append({"canonical_block": _strip(w)})
        return _finish(pid, label, work, bad, unknown, q0, n0, t0, q, samples)
    return vf.FN("%s canonical %sdoccomment is lexed as exactly one %s token with that text" % (label, "@module " if module else "", "Module_docstring" if module else "Docstring"),
                 fn, engine="z3 regex membership", encodes=ENC_LEX,
                 symbolic="number of lines, every line's text and indentation (unbounded), what follows the block",
                 bound="none on length or line count; texts free of CR and ']]' (the property's canonical form)")


# ------------------------------------------------------------------------------------------------ parser lemmas
def _enc(par):
    P = par.P
    enc = {-1: 0x100}
    for t in range(1, 64):
        enc[t] = 0x100 + t
    return enc


def refseq(par, D, enc):
    """reference sequence language over token types: M? ( D? I '(' args ')' | D )* EOF, parentheses nested <= D"""
    P = par.P

    def t(*types):
        return ('set', rx.norm([(enc[x], enc[x]) for x in types]))
    single = t(P.Identifier, P.Unquoted_argument, P.Bracket_argument, P.Quoted_argument)
    args = star(single)
    for _ in range(D + 1):      # the parser ATN unrolled to recursion depth D admits D+1 levels of compound arguments
        args = star(alt(single, cat(t(P.T__0), args, t(P.T__1))))
    inv = cat(t(P.Identifier), t(P.T__0), args, t(P.T__1))
    item = alt(cat(opt(t(P.Docstring)), inv), t(P.Docstring))
    return cat(opt(t(P.Module_docstring)), star(item), t(-1))


def ob_parser(pid, D, label="C05.c"):
    def fn(work):
        c = ctx(D)
        par, q = c["par"], c["q"]
        t0, q0, n0 = time.time(), q.secs, q.n
        enc = _enc(par)
        ACC = e2.tokens_to_chars(par.rule(0), enc)
        REF = refseq(par, D, enc)
        bad, unknown, samples = [], [], []
        dec = {v: k for k, v in enc.items()}
        names = {-1: "EOF"}
        for k in range(1, 40):
            names[k] = par.P.symbolicNames[k] if k < len(par.P.symbolicNames) and par.P.symbolicNames[k] != "<INVALID>" else (par.P.literalNames[k] if k < len(par.P.literalNames) else str(k))

        def show(w):
            return " ".join(names.get(dec.get(ord(ch), None), "?") for ch in w)
        for (name, r) in (("valid sequence rejected by the parser ATN (REFSEQ minus L(parser))", and_(REF, not_(ACC))),
                          ("parser ATN accepts a sequence outside the reference (L(parser) minus REFSEQ): unbalanced parentheses, bare words, dead tokens", and_(ACC, not_(REF)))):
            res, w = q.empty(name, r)
            if res == "sat":
                rep, txt = _replay_parser(par, [dec[ord(ch)] for ch in w], name.startswith("valid"))
                bad.append((name, show(w), rep, txt))
            elif res != "unsat":
                unknown.append(name)
        # documented_command always starts Docstring Identifier '(' : a Docstring followed by anything else can only be a dangling doccomment
        P = par.P
        dc = e2.tokens_to_chars(par.rule(P.RULE_documented_command), enc)
        t = lambda x: ('set', ((enc[x], enc[x]),))
        res, w = q.empty("documented_command without 'Docstring Identifier ('", and_(dc, not_(cat(t(P.Docstring), t(P.Identifier), t(P.T__0), star(('set', ((0x100, 0x140),)))))))
        if res == "sat":
            bad.append(("documented_command shape", show(w), False, "structural lemma violated"))
        elif res != "unsat":
            unknown.append("documented_command shape")
        r_, w = q.witness("sample", and_(ACC, cat(star(ANYC), t(P.Docstring), star(ANYC), t(P.T__0), star(ANYC), t(P.T__0), star(ANYC))))
        if w:
            samples.append({"accepted_token_sequence": show(w)})
        # skipped and dead token types
        return _finish(pid, label, work, bad, unknown, q0, n0, t0, q, samples)
    return vf.FN("%s parser ATN language == reference sequence language (both inclusions), compound-argument nesting <= %d" % (label, D + 1), fn,
                 engine="z3 regex membership over the token-type alphabet", encodes=ENC_PAR,
                 symbolic="the whole token sequence of a file (unbounded length)", bound="parenthesis nesting <= %d" % D)


def refseq_full(par, D, enc):
    """as refseq, but a doccomment that happens to start with '@module' (token Module_docstring) may stand wherever a
    doccomment may: to CMake it is an ordinary bracket comment"""
    P = par.P

    def t(*types):
        return ('set', rx.norm([(enc[x], enc[x]) for x in types]))
    single = t(P.Identifier, P.Unquoted_argument, P.Bracket_argument, P.Quoted_argument)
    args = star(single)
    for _ in range(D + 1):
        args = star(alt(single, cat(t(P.T__0), args, t(P.T__1))))
    inv = cat(t(P.Identifier), t(P.T__0), args, t(P.T__1))
    doc = t(P.Docstring, P.Module_docstring)
    item = alt(cat(opt(doc), inv), doc)
    return cat(star(item), t(-1))


def ob_module_anywhere(pid, D, finding, label="C05.c"):
    """isolates known finding D11: '#[[[ @module' doccomments anywhere but at the start of the file are a syntax error"""
    def fn(work):
        c = ctx(D)
        par, q = c["par"], c["q"]
        t0, q0, n0 = time.time(), q.secs, q.n
        enc = _enc(par)
        dec = {v: k for k, v in enc.items()}
        ACC = e2.tokens_to_chars(par.rule(0), enc)
        FULL = refseq_full(par, D, enc)
        res, w = q.empty("valid sequence with a Module_docstring token rejected by the parser ATN", and_(FULL, not_(ACC)))
        if res == "unsat":
            return dict(verdict=vf.HOLDS, paths=q.n - n0, detail="every reference sequence, Module_docstring tokens anywhere, is accepted")
        if res != "sat":
            return dict(verdict=vf.INCONCLUSIVE, paths=q.n - n0, detail="z3: " + res)
        types = [dec[ord(ch)] for ch in w]
        rep, txt = _replay_parser(par, types, True)
        P = par.P
        in_region = any(ty == P.Module_docstring for ty in types[1:])
        out = _finish(pid, label + "_module_anywhere", work, [("Module_docstring after the first token", str(types), rep and in_region, txt)], [], q0, n0, t0, q,
                      [{"token_types": types}])
        return out
    return vf.FN("%s [known finding %s isolated] '#[[[ @module ...' doccomment after the first token" % (label, finding), fn,
                 engine="z3 regex membership over the token-type alphabet", encodes=ENC_PAR, symbolic="the whole token sequence",
                 bound="compound-argument nesting <= %d" % (D + 1), finding=finding)


def _replay_parser(par, types, expect_accept):
    """run the real CMakeParser on a synthetic token list"""
    from antlr4 import CommonTokenStream
    from antlr4.Token import CommonToken
    from antlr4.ListTokenSource import ListTokenSource
    from cminx.parser import ParserErrorListener
    toks = []
    for i, ty in enumerate(types):
        t = CommonToken(type=ty)
        t.text = "<EOF>" if ty == -1 else "x"
        t.tokenIndex = i
        toks.append(t)
    p = par.P(CommonTokenStream(ListTokenSource(toks)))
    p.removeErrorListeners()
    p.addErrorListener(ParserErrorListener())
    try:
        p.cmake_file()
        accepted = True
    except Exception as ex:
        accepted = False
    if expect_accept:
        return (not accepted), ("real parser rejects it" if not accepted else "real parser accepts it (encoding problem)")
    return accepted, ("real parser accepts it" if accepted else "real parser rejects it (encoding problem)")


# ------------------------------------------------------------------------------------------------ C06.a fault lemmas
def ob_faults(pid, D, label="C06.a"):
    def fn(work):
        c = ctx(D)
        lex, par, q = c["lex"], c["par"], c["q"]
        t0, q0, n0 = time.time(), q.secs, q.n
        names = _names(lex)
        live = [n for ty, n in lex.ttype.items() if ty in par.live]
        dead = [n for ty, n in lex.ttype.items() if ty not in par.live and n not in lex.skip]
        watch = live + lex.skip            # rules whose token would let lexing silently continue
        ALNUM = alt(rng("A", "Z"), rng("a", "z"), rng("0", "9"))
        badesc = cat(lit("\\"), and_(ALNUM, not_(chars("trn"))))
        noq = notchars('"\\')
        okq = alt(noq, e2.Reference(lex, D).esc, cat(lit("\\"), e2.Reference(lex, D).eol))
        F = {
            "unterminated quote to end of input": cat(lit('"'), star(okq), EOFC),
            "backslash + alphanumeric at a token start": cat(badesc, ALLE),
            "backslash at end of input": cat(lit("\\"), EOFC),
            "invalid escape inside a quoted argument": cat(lit('"'), star(okq), badesc, ALLE),
            "backslash at end of input inside a quoted argument": cat(lit('"'), star(okq), lit("\\"), EOFC),
        }
        for n in range(D + 1):
            close = "]" + "=" * n + "]"
            F["unterminated #[%s[ comment to end of input" % ("=" * n)] = cat(lit("#[" + "=" * n + "["), and_(ALL, not_(cat(ALL, lit(close), ALL))), EOFC)
        bad, unknown, samples = [], [], []
        for fname, Fl in F.items():
            # '#[[' opening '#[[[' is CMinx's doccomment opener: its own (dead) token; still an error for the parser
            for rn in watch:
                res, w = q.empty("%s: first token by %s" % (fname, rn), and_(Fl, cat(lex.eff[rn], ALLE), WFP))
                if res == "sat":
                    s = _strip(w)
                    tr, end = e2.real_trace(s, names)
                    # reproduced iff the real lexer gets past the fault position without an error and without a dead token
                    silent = end == "EOF" and all(k in watch or k == "SKIP" for (k, a, b) in tr)
                    first_ok = bool(tr) and (tr[0][0] in watch or tr[0][0] == "SKIP")
                    bad.append(("%s / %s" % (fname, rn), s, first_ok, "real lexer: %r %s" % (tr[:3], end)))
                elif res != "unsat":
                    unknown.append(fname + "/" + rn)
            r_, w = q.witness("sample", and_(Fl, WFP))
            if w and len(samples) < 3:
                samples.append({"fault": fname, "z3_member": _strip(w)[:50]})
        # a fault after an argument prefix: no argument token can contain an invalid escape, because the rule languages are
        # included in the reference element languages (valid escapes only); so the prefix token ends before the fault and
        # the boundary lemmas above apply
        ref = e2.Reference(lex, D)
        for (nm, rl, refl) in (("Unquoted_argument", lex.eff["Unquoted_argument"], plus(alt(notchars(' \t\r\n()#"\\'), ref.esc))),
                               ("Quoted_argument", lex.eff["Quoted_argument"], ref.T["quoted"][0])):
            res, w = q.empty("%s language inside the reference (valid escapes only)" % nm, and_(rl, not_(refl)))
            if res == "sat":
                s = _strip(w)
                tr, end = e2.real_trace(s, names)
                rep = end == "EOF" and len(tr) == 1 and tr[0][0] == nm
                bad.append(("%s outside reference" % nm, s, rep, "real lexer: %r %s" % (tr[:3], end)))
            elif res != "unsat":
                unknown.append(nm + " inclusion")
        out = _finish(pid, label, work, bad, unknown, q0, n0, t0, q, samples)
        out["meta"]["live_token_rules"] = live
        out["meta"]["dead_token_rules"] = dead
        return out
    return vf.FN("%s local fault lemmas: on every listed fault the lexer can only report an error or emit a token no parser state accepts" % label, fn,
                 engine="z3 regex membership", encodes=ENC_LEX + ENC_PAR, symbolic="the remaining input after the fault position (unbounded)",
                 bound="bracket level <= %d; faults at a token boundary (boundaries are the reference boundaries by C05.b)" % D)


# ------------------------------------------------------------------------------------------------ C06.e end-to-end fault witnesses
def ob_fault_witnesses(pid, D, label="C06.e"):
    """z3 picks members of (valid prefix . fault . valid suffix) for every fault class x position class; each is written to a
    file and pushed through the real cminx.main: it must fail (exception or non-zero exit) and write no page.
    This is witness replay through the whole wiring (lexer listener, parser listener, ANTLR recovery, document_single_file):
    it supports the composition of the lemmas a-d and is NOT exhaustive."""
    def fn(work):
        import subprocess, tempfile, shutil
        c = ctx(D)
        lex, q = c["lex"], c["q"]
        t0, q0, n0 = time.time(), q.secs, q.n
        ident = cat(alt(rng("a", "z")), star(alt(rng("a", "z"), chars("_"))))
        word = plus(rng("a", "z"))
        cmd = cat(ident, lit("("), opt(cat(word, star(cat(lit(" "), word)))), lit(")"))
        nl = lit("\n")
        doc = cat(lit("#[[[\n# "), word, lit("\n#]]\n"))
        valid_item = alt(cat(cmd, nl), cat(doc, cmd, nl), cat(lit("# "), word, nl))
        lexical = {
            "stray unterminated quote": cat(lit('"'), word),
            "backslash + alphanumeric": cat(lit("\\"), and_(rng("a", "z"), not_(chars("trn"))), star(rng("a", "z"))),
            "unterminated #[[ comment": cat(lit("#[["), and_(plus(alt(rng("a", "z"), chars(" \n"))), not_(cat(ALL, lit("]]"), ALL)))),
            "unterminated #[=[ comment": cat(lit("#[=["), word),
        }
        syntactic = {
            "bare word": word,
            "extra closing parenthesis": lit(")"),
            "missing closing parenthesis": cat(ident, lit("("), word),
        }
        positions = {
            "at the very start of the file": (EPS, cat(nl, star(valid_item))),
            "after a leading line comment": (cat(lit("# "), word, nl), cat(nl, star(valid_item))),
            "between two commands": (cat(plus(valid_item)), cat(nl, plus(valid_item))),
            "after a command on the same line": (cat(star(valid_item), cmd, lit(" ")), cat(nl, star(valid_item))),
            "right before a doccomment": (star(valid_item), cat(nl, doc, cmd, nl)),
            "at the end of the file": (plus(valid_item), EPS),
        }
        inside = {
            "inside an argument list": (cat(star(valid_item), ident, lit("("), word, lit(" ")), cat(lit(")"), nl, star(valid_item))),
        }
        cases = []
        for fname, F in list(lexical.items()) + list(syntactic.items()):
            for pname, (pre, suf) in positions.items():
                lang = cat(pre, F, suf)
                if fname.startswith("unterminated #"):       # unterminated = no matching close up to the end of the file
                    close = "]]" if "#[[" in fname else "]=]"
                    lang = cat(pre, and_(cat(F, suf), not_(cat(ALL, lit(close), ALL))))
                cases.append((fname, pname, lang))
        for fname, F in lexical.items():
            for pname, (pre, suf) in inside.items():
                if fname.startswith("unterminated #"):
                    continue          # swallows the closing parenthesis: becomes 'missing parenthesis', covered above
                cases.append((fname, pname, cat(pre, F, suf)))
        bad, unknown, samples = [], [], []
        tmp = os.path.join(work, "faults")
        shutil.rmtree(tmp, ignore_errors=True)
        os.makedirs(tmp)
        n = 0
        allfalse = os.path.join(tmp, "allfalse.yaml")
        open(allfalse, "w").write("input:\n" + "".join("  include_undocumented_%s: false\n" % k for k in
                                  ("function", "macro", "cpp_class", "cpp_attr", "cpp_member", "cpp_constructor", "ct_add_test", "ct_add_section", "add_test", "option")))
        # second pass: the same fault classes under another configuration (nothing undocumented is included): failing loudly does not
        # depend on the settings
        for (minlen, cfg) in ((0, None), (40, None), (0, allfalse)):
            for (fname, pname, lang) in cases:
                r = lang if minlen == 0 else and_(lang, cat(*([REALC] * minlen), ALL))
                res, w = q.witness("%s %s" % (fname, pname), and_(r, ALL))
                if res == "unsat":
                    continue          # no such file exists (e.g. an 'unterminated' comment closed by the doccomment's '#]]')
                if res != "sat":
                    unknown.append("%s %s: %s" % (fname, pname, res))
                    continue
                n += 1
                src = os.path.join(tmp, "f%d.cmake" % n)
                out = os.path.join(tmp, "o%d" % n)
                open(src, "w", encoding="utf-8").write(w)
                p = subprocess.run([vf.PY, "-W", "ignore", "-c", "import sys, cminx; cminx.main(sys.argv[1:2] + ['-o', sys.argv[2]] + sys.argv[3:])", src, out] + (["-s", cfg] if cfg else []),
                                   capture_output=True, text=True, timeout=120,
                                   env=dict(os.environ, PYTHONPATH=os.path.join(vf.REPO, "src"), XDG_CONFIG_HOME=os.path.join(work, "xdg")))
                wrote = os.path.isdir(out) and any(f.endswith(".rst") for f in os.listdir(out))
                if p.returncode == 0 or wrote:
                    bad.append(("%s %s%s" % (fname, pname, " [all include_undocumented_* off]" if cfg else ""), w, True, "cminx exit status %d, page written: %s" % (p.returncode, wrote)))
                if len(samples) < 3 and minlen == 0:
                    samples.append({"fault": fname, "position": pname, "file_text": w, "exit_status": p.returncode})
        out = _finish(pid, label, work, bad, unknown, q0, n0, t0, q, samples, validated=n)
        if out["verdict"] == vf.HOLDS:
            out["detail"] = "%d solver-chosen faulty files (7 fault classes x 6-7 position classes; two sizes, two configurations): every one fails with non-zero status and writes nothing" % n
        return out
    return vf.FN("%s end-to-end witnesses: every fault class at every position class makes cminx.main fail and write nothing" % label, fn,
                 engine="z3 picks members of the composed languages; each is replayed through the real CLI entry point (witness replay, not exhaustive)",
                 encodes=["cminx.main -> document -> document_single_file -> Documenter.__init__/process (real lexer, parser, listeners, ANTLR error strategy)"],
                 symbolic="the concrete text is chosen by z3 from prefix . fault . suffix languages", bound="one or two witnesses per (fault class, position class)")


# ------------------------------------------------------------------------------------------------ C05.e corpus replay
def ob_corpus(pid="C05", label="C05.e"):
    """the property names 'the ~1000 files shipped with CMake': every module under /usr/share/cmake*/Modules is pushed through the
    real Documenter (decode, lexer, parser, walk, rendering). Corpus replay: supports the lemmas, decides nothing by itself."""
    def fn(work):
        import contextlib, io, logging, re as _re
        from cminx.documenter import Documenter
        from cminx.config import Settings
        t0 = time.time()
        files = sorted(glob.glob("/usr/share/cmake*/Modules/**/*.cmake", recursive=True))
        if not files:
            return dict(verdict=vf.INCONCLUSIVE, detail="no CMake installation with modules found", paths=0)
        template = _re.compile(r"^[ \t]*@[A-Za-z_0-9]+@", _re.M)       # configure_file() templates are not CMake source
        bad, n, skipped = [], 0, 0
        logging.disable(logging.CRITICAL)
        for f in files:
            try:
                text = open(f, encoding="utf-8").read()
            except (OSError, UnicodeDecodeError):
                skipped += 1
                continue
            if template.search(text):
                skipped += 1
                continue
            n += 1
            try:
                with contextlib.redirect_stderr(io.StringIO()):
                    Documenter(f, "t", "m", Settings()).process()
            except Exception as ex:
                bad.append((f, "%s: %s" % (type(ex).__name__, str(ex)[:120])))
        if bad:
            rep = os.path.join(vf.ROOT, "replays", pid, "corpus.json")
            os.makedirs(os.path.dirname(rep), exist_ok=True)
            json.dump({"property": pid, "obligation": label, "failing_files": bad[:20]}, open(rep, "w"), indent=1)
            return dict(verdict=vf.VIOLATION, replay=rep, paths=n, validated=n, detail="%d of %d shipped modules are not processed to completion, e.g. %s" % (len(bad), n, bad[0]))
        return dict(verdict=vf.HOLDS, paths=n, validated=n, cpu_s=time.time() - t0, samples=[{"files": n, "skipped_templates_or_undecodable": skipped}],
                    detail="%d modules shipped with CMake processed to completion by the real Documenter (%d configure_file templates skipped)" % (n, skipped))
    return vf.FN("%s corpus replay: every module shipped with CMake is processed to completion" % label, fn,
                 engine="concrete corpus replay through the real Documenter (supports C05.a-d; not a solver verdict)",
                 encodes=["cminx.documenter.Documenter.__init__/process"], symbolic="-", bound="the *.cmake files under /usr/share/cmake*/Modules")


# ------------------------------------------------------------------------------------------------ C05.f valid-file witnesses (sizes)
def rep(x, n):
    """x repeated n times as a balanced concatenation tree (keeps the recursion depth of the translators logarithmic)"""
    if n <= 0:
        return EPS
    if n == 1:
        return x
    h = n // 2
    return ('cat', rep(x, h), rep(x, n - h))


def ob_valid_witnesses(pid="C05", label="C05.f", big=False):
    """z3 picks members of valid-file languages with a size constraint (nesting depth, bracket level, argument count, line length,
    number of commands); each is run through the real cminx.main and must be processed to completion, documenting the last command.
    Witness replay through the whole wiring (ANTLR runtime and error strategy included): supports C05.b-d beyond their depth bound D;
    not exhaustive."""
    def fn(work):
        import subprocess, shutil
        c = ctx(2)
        q = c["q"]
        t0, q0, n0 = time.time(), q.secs, q.n
        word = plus(rng("a", "z"))
        ident = cat(rng("a", "z"), star(alt(rng("a", "z"), chars("_"))))
        nl = lit("\n")
        sizes = dict(paren=(40, 200) if big else (40,), level=(3, 9, 40) if big else (3, 9), nargs=(60, 400) if big else (60,),
                     line=(500, 3000) if big else (500,), ncmds=(80, 400) if big else (80,))
        cases = []
        for d in sizes["paren"]:
            inner = word
            for _ in range(d):
                inner = cat(lit("("), inner, lit(")"))
            cases.append(("parenthesised groups nested %d deep" % d, cat(ident, lit("(a "), inner, lit(")"), nl)))
        for lv in sizes["level"]:
            eq = "=" * lv
            body = and_(star(alt(rng("a", "z"), chars(" ]\n"))), not_(cat(ALL, lit("]" + eq + "]"), ALL)))
            cases.append(("bracket argument of level %d" % lv, cat(ident, lit("([" + eq + "["), body, lit("]" + eq + "])"), nl)))
            cases.append(("bracket comment of level %d" % lv, cat(lit("#[" + eq + "["), body, lit("]" + eq + "]"), nl, ident, lit("()"), nl)))
        for n in sizes["nargs"]:
            cases.append(("%d arguments" % n, cat(ident, lit("("), word, rep(cat(lit(" "), word), n - 1), lit(")"), nl)))
        for n in sizes["line"]:
            cases.append(("quoted argument of %d characters" % n, cat(ident, lit('("'), rep(rng("a", "z"), n), lit('")'), nl)))
            cases.append(("line comment of %d characters" % n, cat(lit("#"), rep(rng("a", "z"), n), nl, ident, lit("()"), nl)))
        for n in sizes["ncmds"]:
            cases.append(("%d commands" % n, rep(cat(ident, lit("("), word, lit(")"), nl), n)))
        # characters that some Python text functions take for line breaks (str.splitlines) but that are ordinary text to CMake
        for cp in (0x0B, 0x0C, 0x1C, 0x1D, 0x1E, 0x85, 0x2028, 0x2029):
            odd = chars(chr(cp))
            cases.append(("U+%04X inside a line comment" % cp, cat(lit("# "), word, odd, word, lit(" "), word, nl, ident, lit("()"), nl)))
            cases.append(("U+%04X inside a quoted and an unquoted argument" % cp, cat(ident, lit('("'), word, odd, word, lit('" '), word, odd, word, lit(")"), nl)))
        tmp = os.path.join(work, "valid")
        shutil.rmtree(tmp, ignore_errors=True)
        os.makedirs(tmp)
        bad, unknown, samples = [], [], []
        n = 0
        for (name, lang) in cases:
            # the last command of the file is a documented function: its entry must appear (nothing was skipped on the way)
            full = cat(lang, lit("#[[[\n# d\n#]]\nfunction(last_fn x)\nendfunction()\n"))
            res, w = q.witness(name, full)
            if res != "sat":
                unknown.append("%s: %s" % (name, res))
                continue
            n += 1
            src = os.path.join(tmp, "v%d.cmake" % n)
            out = os.path.join(tmp, "o%d" % n)
            open(src, "w", encoding="utf-8").write(w)
            p = subprocess.run([vf.PY, "-W", "ignore", "-c", "import sys; sys.setrecursionlimit(100000); import cminx; cminx.main([sys.argv[1], '-o', sys.argv[2]])", src, out],
                               capture_output=True, text=True, timeout=600,
                               env=dict(os.environ, PYTHONPATH=os.path.join(vf.REPO, "src"), XDG_CONFIG_HOME=os.path.join(work, "xdg")))
            page = os.path.join(out, "v%d.rst" % n)
            ok = p.returncode == 0 and os.path.exists(page) and ".. function:: last_fn(x)" in open(page, encoding="utf-8").read()
            if not ok:
                bad.append((name, w[:120] + ("..." if len(w) > 120 else ""), True, "cminx exit status %d, %s" % (p.returncode, (p.stderr or "").strip().split("\n")[-1][:160])))
            if len(samples) < 3:
                samples.append({"case": name, "file_chars": len(w), "exit_status": p.returncode})
        out_ = _finish(pid, label, work, bad, unknown, q0, n0, t0, q, samples, validated=n)
        if out_["verdict"] == vf.HOLDS:
            out_["detail"] = "%d solver-chosen valid files with large sizes processed to completion by the real CLI" % n
        return out_
    return vf.FN("%s valid-file witnesses with large sizes (deep parentheses, high bracket levels, many arguments/commands, long lines) are processed to completion" % label, fn,
                 engine="z3 picks members of size-constrained valid-file languages; each is replayed through the real CLI (witness replay, not exhaustive)",
                 encodes=["cminx.main -> Documenter (real lexer, parser, error strategy, walker, renderer)"], symbolic="the concrete text is chosen by z3",
                 bound="one witness per size class; one witness per character U+000B, U+000C, U+001C-1E, U+0085, U+2028, U+2029 inside a comment / inside arguments")


# ------------------------------------------------------------------------------------------------ second opinion (other solvers)
def ob_second_opinion(pid, D, label="E2"):
    """every regex query this run has put to z3 5.x (python API) is printed as portable SMT-LIB2 by rx.to_smt and decided again by two
    independent solver binaries; an answer that contradicts the first one, or an '(error' line, makes the obligation INCONCLUSIVE
    (HARNESS_ERROR if both other solvers contradict). A timeout of a second solver is only counted."""
    def fn(work):
        import subprocess, shutil, concurrent.futures as cf
        c = ctx(D)
        q = c["q"]
        asked = [(n, r, g) for (n, r, g) in q.asked if r in ("sat", "unsat")]
        t0 = time.time()
        d = os.path.join(work, "smt2")
        os.makedirs(d, exist_ok=True)
        import sys
        solvers = [(nm, cmd) for (nm, cmd) in (("z3-4.8.12", ["/usr/bin/z3", "-T:20"]),
                                               ("cvc5-1.4.0", [sys.executable, os.path.join(os.path.dirname(os.path.abspath(__file__)), "cvc5run.py"), "10000"])) if os.path.exists(cmd[0])]
        if not solvers:
            return dict(verdict=vf.INCONCLUSIVE, paths=0, detail="no second solver binary installed")
        files = []
        seen = set()
        for i, (n, r, g) in enumerate(asked):
            txt = "(set-logic QF_S)\n(declare-const x String)\n(assert (str.in_re x %s))\n(check-sat)\n" % rx.to_smt(g)
            if txt in seen:
                continue
            seen.add(txt)
            if len(files) >= 800:                 # stated cap: the first 800 distinct queries of the run
                break
            f = os.path.join(d, "q%04d.smt2" % i)
            open(f, "w").write("; " + n.replace("\n", " ") + "\n" + txt)
            files.append((n, r, f))

        def run(job):
            (n, r, f), (nm, cmd) = job
            try:
                p = subprocess.run(cmd + [f], capture_output=True, text=True, timeout=40)
                out = (p.stdout + p.stderr).strip().split("\n")
            except subprocess.TimeoutExpired:
                out = ["timeout"]
            first = out[0].strip().split(" ")[-1] if out else ""
            err = any("(error" in l for l in out)
            return n, r, nm, ("error" if err else first if first in ("sat", "unsat") else "no answer")
        jobs = [(fl, sv) for fl in files for sv in solvers]
        with cf.ThreadPoolExecutor(max_workers=max(2, (os.cpu_count() or 4) // 2)) as ex:
            res = list(ex.map(run, jobs))
        agree = {nm: 0 for (nm, _) in solvers}
        silent = {nm: 0 for (nm, _) in solvers}
        contra, errors = [], []
        for (n, r, nm, a) in res:
            if a == r: agree[nm] += 1
            elif a == "error": errors.append((n, nm))
            elif a in ("sat", "unsat"): contra.append((n, nm, r, a))
            else: silent[nm] += 1
        shutil.rmtree(d, ignore_errors=True)
        det = "%d distinct queries; agreeing answers %s; no answer within the limit %s" % (len(files), agree, silent)
        if contra:
            return dict(verdict=vf.INCONCLUSIVE, paths=len(res), detail=det + "; CONTRADICTING answers: %r" % contra[:5])
        if errors:
            return dict(verdict=vf.INCONCLUSIVE, paths=len(res), detail=det + "; solver errors: %r" % errors[:5])
        return dict(verdict=vf.HOLDS, paths=len(res), cpu_s=time.time() - t0, detail=det,
                    samples=[{"second_solver": nm, "agree": agree[nm], "no_answer": silent[nm]} for (nm, _) in solvers])
    return vf.FN("%s second opinion: every regex query of this run decided again by z3 4.8.12 and cvc5 1.4.0 from portable SMT-LIB2" % label, fn,
                 engine="/usr/bin/z3 4.8.12 (binary) and cvc5 1.4.0 (wheel, lib/cvc5run.py) on SMT-LIB2 printed by rx.to_smt (QF_S, one string variable, re.comp/re.inter)",
                 encodes=ENC_LEX, symbolic="as the queries re-decided", bound="the first 800 distinct queries of the run; per query: 20 s (z3 4.8.12), 10 s (cvc5); an unanswered query is counted, not a failure")


# ------------------------------------------------------------------------------------------------ known finding D19 (lone CR)
def ob_lone_cr(pid, D, finding, label="C05.b"):
    """isolates known finding D19. cmake-language(7): newline = LF, a line comment is '#' + any text without a newline -- a lone CR
    inside it belongs to the comment (cmake 3.25 agrees: `# c<CR>message(hi)` prints nothing). CMinx's Line_comment rule stops at CR:
    the rest of CMake's comment is lexed as live tokens. The reference of C05.b/C04 follows CMinx's grammar on this point (CR, CR LF
    and LF are line ends); this obligation asks z3 for a member of (CMake line comment with a lone CR followed by a word) and shows on
    the real lexer that tokens come out of it."""
    def fn(work):
        c = ctx(D)
        lex, ref, q = c["lex"], c["ref"], c["q"]
        t0, q0, n0 = time.time(), q.secs, q.n
        ident = cat(alt(rng("A", "Z"), rng("a", "z"), lit("_")), star(alt(rng("A", "Z"), rng("a", "z"), rng("0", "9"), lit("_"))))
        body = star(notchars("\r\n"))
        cmake_comment = cat(and_(cat(lit("#"), body), not_(cat(lit("#"), ref.any_bopen, ALL))), lit("\r"), ident, lit("("), lit(")"), lit("\n"))
        res, w = q.empty("a CMake line comment holding a lone CR followed by word()", cmake_comment)
        if res != "sat":
            return dict(verdict=vf.INCONCLUSIVE if res != "unsat" else vf.HARNESS_ERROR, paths=q.n - n0, detail="z3: %s for a non-empty language" % res)
        s = _strip(w)
        tr, end = e2.real_trace(s, _names(lex))
        live = [(k, s[a:b]) for (k, a, b) in tr if k != "SKIP"]
        return _finish(pid, label + "_lone_cr", work, [("lone CR inside a line comment", s, len(live) > 0, "real lexer emits live tokens %r from text that is one comment line to CMake" % (live,))],
                       [], q0, n0, t0, q, [{"witness": s}])
    return vf.FN("%s [known finding %s isolated] a lone CR inside a line comment ends the comment for CMinx, not for CMake" % (label, finding), fn,
                 engine="z3 regex membership (witness) + real CMakeLexer replay", encodes=ENC_LEX, symbolic="the comment text and the word after the CR",
                 bound="none on length", finding=finding)
