"""Regular-expression AST over code points with three back ends: z3 (decide), python `re` (run token rules fast),
Brzozowski derivatives (run anything, incl. complement/intersection, on short concrete strings).

AST: ('eps',) ('empty',) ('set', ((lo,hi),...)) ('cat', a, b) ('alt', a, b) ('star', a) ('and', a, b) ('not', a)
Alphabet: real input is [0, MAXCP]*; EOFCP is the end-of-input sentinel (ANTLR consumes EOF as a symbol).
"""
import functools
import re as pyre

MAXCP = 0x2FFFE
EOFCP = 0x2FFFF
EPS = ('eps',)
EMPTY = ('empty',)
REALC = ('set', ((0, MAXCP),))
EOFC = ('set', ((EOFCP, EOFCP),))
ANYC = ('set', ((0, EOFCP),))


def cat(*xs):
    r = EPS
    for x in reversed(xs):
        if x == EMPTY or r == EMPTY:
            r = EMPTY
        elif x == EPS:
            pass
        elif r == EPS:
            r = x
        else:
            r = ('cat', x, r)
    return r


def alt(*xs):
    r = EMPTY
    for x in xs:
        if x == EMPTY or x == r:
            continue
        r = x if r == EMPTY else ('alt', r, x)
    return r


def star(a):
    if a in (EMPTY, EPS):
        return EPS
    if a[0] == 'star':
        return a
    return ('star', a)


def plus(a):
    return cat(a, star(a))


def opt(a):
    return alt(EPS, a)


def and_(*xs):
    r = None
    for x in xs:
        if x == EMPTY:
            return EMPTY
        r = x if r is None else (r if r == x else ('and', r, x))
    return r


def not_(a):
    if a[0] == 'not':
        return a[1]
    return ('not', a)


def norm(ranges):
    out = []
    for lo, hi in sorted(ranges):
        if lo > hi:
            continue
        if out and lo <= out[-1][1] + 1:
            out[-1] = (out[-1][0], max(out[-1][1], hi))
        else:
            out.append((lo, hi))
    return tuple(out)


def negate(ranges, top=MAXCP):
    out = []
    cur = 0
    for lo, hi in norm(ranges):
        if lo > cur:
            out.append((cur, lo - 1))
        cur = hi + 1
    if cur <= top:
        out.append((cur, top))
    return tuple(out)


def chars(s):
    return ('set', norm([(ord(c), ord(c)) for c in s]))


def notchars(s):
    """any real character except those in s"""
    return ('set', negate([(ord(c), ord(c)) for c in s]))


def rng(a, b):
    return ('set', ((ord(a), ord(b)),))


def lit(s):
    return cat(*[('set', ((ord(c), ord(c)),)) for c in s]) if s else EPS


ALL = star(REALC)          # any real text
ALLE = star(ANYC)          # any text incl. sentinel


def minimal(r):
    """minimal-match language of a non-greedy rule: words of r with no proper prefix... (r minus r.Sigma+)"""
    return and_(r, not_(cat(r, plus(ANYC))))


# ------------------------------------------------------------------------------------------------ z3 back end
def to_z3(rx, cache=None):
    import z3
    if cache is None:
        cache = {}
    if rx in cache:
        return cache[rx]
    k = rx[0]
    S = z3.StringSort()
    if k == 'eps':
        r = z3.Re(z3.StringVal(""))
    elif k == 'empty':
        r = z3.Empty(z3.ReSort(S))
    elif k == 'set':
        parts = []
        for lo, hi in rx[1]:
            parts.append(z3.Range(z3.Unit(z3.CharVal(lo)), z3.Unit(z3.CharVal(hi))) if lo != hi else z3.Re(z3.Unit(z3.CharVal(lo))))
        r = z3.Empty(z3.ReSort(S)) if not parts else (parts[0] if len(parts) == 1 else z3.Union(*parts))
    elif k == 'cat':
        r = z3.Concat(to_z3(rx[1], cache), to_z3(rx[2], cache))
    elif k == 'alt':
        r = z3.Union(to_z3(rx[1], cache), to_z3(rx[2], cache))
    elif k == 'and':
        r = z3.Intersect(to_z3(rx[1], cache), to_z3(rx[2], cache))
    elif k == 'not':
        r = z3.Complement(to_z3(rx[1], cache))
    elif k == 'star':
        r = z3.Star(to_z3(rx[1], cache))
    else:
        raise ValueError(k)
    cache[rx] = r
    return r


def decode_z3_string(v):
    """z3 model value -> python str (z3py prints control characters raw; as_string() escapes them as \\u{..})"""
    s = v.as_string()
    return pyre.sub(r"\\u\{([0-9a-fA-F]+)\}", lambda m: chr(int(m.group(1), 16)), s)


# ------------------------------------------------------------------------------------------------ SMT-LIB2 printer (portable)
def to_smt(rx):
    k = rx[0]
    if k == 'eps':
        return '(str.to_re "")'
    if k == 'empty':
        return '(re.none)' if False else 're.none'
    if k == 'set':
        def ch(c):
            return '"\\u{%x}"' % c
        parts = ['(re.range %s %s)' % (ch(lo), ch(hi)) if lo != hi else '(str.to_re %s)' % ch(lo) for lo, hi in rx[1]]
        if not parts:
            return 're.none'
        return parts[0] if len(parts) == 1 else '(re.union ' + ' '.join(parts) + ')'
    if k == 'cat':
        return '(re.++ %s %s)' % (to_smt(rx[1]), to_smt(rx[2]))
    if k == 'alt':
        return '(re.union %s %s)' % (to_smt(rx[1]), to_smt(rx[2]))
    if k == 'and':
        return '(re.inter %s %s)' % (to_smt(rx[1]), to_smt(rx[2]))
    if k == 'not':
        return '(re.comp %s)' % to_smt(rx[1])
    if k == 'star':
        return '(re.* %s)' % to_smt(rx[1])
    raise ValueError(k)


# ------------------------------------------------------------------------------------------------ python-re back end (no and/not)
def _cls(ranges):
    def e(c):
        return "\\U%08x" % c
    return "[" + "".join(e(lo) if lo == hi else e(lo) + "-" + e(hi) for lo, hi in ranges) + "]"


def to_py(rx):
    k = rx[0]
    if k == 'eps':
        return ""
    if k == 'empty':
        return "(?!)"
    if k == 'set':
        return _cls(rx[1]) if rx[1] else "(?!)"
    if k == 'cat':
        return to_py(rx[1]) + to_py(rx[2])
    if k == 'alt':
        return "(?:" + to_py(rx[1]) + "|" + to_py(rx[2]) + ")"
    if k == 'star':
        return "(?:" + to_py(rx[1]) + ")*"
    raise ValueError("python-re back end does not support " + k)


# ------------------------------------------------------------------------------------------------ derivative matcher
@functools.lru_cache(maxsize=None)
def nullable(rx):
    k = rx[0]
    if k == 'eps' or k == 'star':
        return True
    if k == 'empty' or k == 'set':
        return False
    if k == 'cat' or k == 'and':
        return nullable(rx[1]) and nullable(rx[2])
    if k == 'alt':
        return nullable(rx[1]) or nullable(rx[2])
    if k == 'not':
        return not nullable(rx[1])
    raise ValueError(k)


@functools.lru_cache(maxsize=200000)
def deriv(rx, c):
    k = rx[0]
    if k == 'eps' or k == 'empty':
        return EMPTY
    if k == 'set':
        return EPS if any(lo <= c <= hi for lo, hi in rx[1]) else EMPTY
    if k == 'cat':
        d = cat(deriv(rx[1], c), rx[2])
        return alt(d, deriv(rx[2], c)) if nullable(rx[1]) else d
    if k == 'alt':
        return alt(deriv(rx[1], c), deriv(rx[2], c))
    if k == 'and':
        a, b = deriv(rx[1], c), deriv(rx[2], c)
        return EMPTY if a == EMPTY or b == EMPTY else and_(a, b)
    if k == 'not':
        return not_(deriv(rx[1], c))
    if k == 'star':
        return cat(deriv(rx[1], c), rx)
    raise ValueError(k)


def matches(rx, s):
    for ch in s:
        rx = deriv(rx, ord(ch))
    return nullable(rx)


def size(rx):
    return 1 + sum(size(x) for x in rx[1:] if isinstance(x, tuple) and x and isinstance(x[0], str))
