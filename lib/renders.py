"""Shard tables for the rendering harness."""
import vf

ENC = ["cminx.documentation_types.<Kind>Documentation.process", "cminx.rstwriter.RSTWriter.directive/text/field/bulleted_list/to_text",
       "cminx.rstwriter.Directive.to_text/option", "Paragraph/Field/Option/RSTList/DirectiveHeading/Heading string builders", "get_indents"]
SHAPE_NAMES = ["plain", "blank", "field ':f: w'", "bullet '* w'", "indented continuation", "directive '.. x:: w'", "literal marker 'w::'", "field ':type: w'", "field ':param w: x'"]


def count(kind, shape, doc):
    n = len(doc)
    if kind in ("function", "macro", "generic", "ctest"): return n + 1 + shape["np"]
    if kind == "variable": return n + 1 + (1 if shape["vtype"] != "UNSET" else 0)
    if kind == "option": return n + 2 + (1 if shape["default"] else 0)
    if kind in ("test", "section", "module"): return n + 1
    c = 1 + shape["bases"] + shape["inner"]
    for (nt, npar, has_args) in shape["ctors"] + shape["methods"]:
        c += 1 + nt + npar
    for has_default in shape["attrs"]:
        c += 1 + (1 if has_default else 0)
    return n + c


def render_ob(prefix, kind, shape, doc, L, timeout=300, fill=""):
    return vf.CH(f"{prefix} render {kind} {shape} doc-shapes={tuple(doc)} L={L}" + (f" +{len(fill)}-char filler" if fill else ""), "render.py",
                 dict(KIND=kind, SHAPE=shape, DOC=tuple(doc), L=L, NCP=count(kind, shape, doc) * L, FILL=fill),
                 timeout=timeout, encodes=ENC,
                 symbolic="every name / parameter / value / type / doc-line word (exactly L arbitrary code points each, no LF/CR); boolean fields (kwargs, macro, EXPECTFAIL)",
                 bound=f"entry kind {kind}, shape {shape}, doc lines of shapes {[SHAPE_NAMES[i] for i in doc]}, every piece exactly {L} chars")
