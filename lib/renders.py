"""Shard tables for the rendering harness."""
import vf

ENC = ["cminx.documentation_types.<Kind>Documentation.process", "cminx.rstwriter.RSTWriter.directive/text/field/bulleted_list/to_text",
       "cminx.rstwriter.Directive.to_text/option", "Paragraph/Field/Option/RSTList/DirectiveHeading/Heading string builders", "get_indents"]
SHAPE_NAMES = ["plain", "blank", "field ':f: w'", "bullet '* w'", "indented continuation", "directive '.. x:: w'", "literal marker 'w::'"]


def render_ob(prefix, kind, shape, doc, L, timeout=300):
    return vf.CH(f"{prefix} render {kind} {shape} doc-shapes={tuple(doc)} L={L}", "render.py", dict(KIND=kind, SHAPE=shape, DOC=tuple(doc), L=L),
                 timeout=timeout, encodes=ENC,
                 symbolic="every name / parameter / value / type / doc-line word (exactly L arbitrary code points each, no LF/CR); boolean fields (kwargs, macro, EXPECTFAIL)",
                 bound=f"entry kind {kind}, shape {shape}, doc lines of shapes {[SHAPE_NAMES[i] for i in doc]}, every piece exactly {L} chars")
