"""spec_render: the specification renderer (oracle of C01.c, C02.c, C07, C09.b, C10, C11, C12.b/c, C20).

Written from the property statements; its nesting is evident from its construction:
  * a page is: title frame, one column-0 module directive, then the entries as column-0 siblings;
  * a directive whose heading is at depth d has its options directly under the heading at depth d+1,
    then one blank line, then every content line at 3*(d+1) spaces;
  * nested directives (note / warning / py:method / py:attribute) are content of their parent, one level deeper.
Fixed sentences (macro note, do-not-call warnings, option note) are *learned* once, concretely, from the implementation
(render of a reference entry with empty doc), and checked for the words the properties prescribe; so a rewording is not
an alarm, a missing/misplaced/mis-kinded sentence is.
"""


def ind(d):
    return "   " * d


def para(d, text):
    """every line of the paragraph starts with exactly 3*d spaces beyond its own text"""
    out = ""
    first = True
    for line in text.split("\n"):
        out = out + ("" if first else "\n") + ind(d) + line
        first = False
    return out + "\n"


def field(d, name, text):
    return "\n" + ind(d) + ":" + name + ": " + text + "\n"


def bullets(d, items):
    s = "\n"
    for it in items:
        s = s + ind(d) + "* " + it + "\n"
    return s + "\n"


def enumerated(d, items):
    s = "\n"
    i = 1
    for it in items:
        s = s + ind(d) + str(i) + ". " + it + "\n"
        i += 1
    return s + "\n"


def directive(d, name, arg, options=(), content=()):
    """heading at depth d; options right after the heading; blank line; content (already rendered at depth d+1)"""
    s = "\n" + ind(d) + ".. " + name + ":: " + arg + "\n"
    for (k, v) in options:
        s = s + ind(d + 1) + ":" + k + ": " + v + "\n"
    if len(content) > 0:
        s = s + "\n"
        for c in content:
            s = s + c
    return s + "\n"


def heading(title, ch):
    line = ch * len(title)
    return "\n" + line + "\n" + title + "\n" + line + "\n"


# ------------------------------------------------------------------ fixed sentences, learned concretely from the implementation
def _learn():
    from cminx.rstwriter import RSTWriter
    from cminx.config import Settings
    import cminx.documentation_types as dt

    def render(e):
        w = RSTWriter("T", settings=Settings())
        e.process(w)
        return w.to_text()

    def grab(text, marker):
        for line in text.split("\n"):
            if marker in line:
                return line.split(marker, 1)[1]
        raise AssertionError("sentence marker %r not found in %r" % (marker, text))
    S = {}
    S["macro"] = grab(render(dt.MacroDocumentation("n", "", [], False)), ".. note:: ")
    S["generic"] = grab(render(dt.GenericCommandDocumentation("n", "", [])), ".. warning:: ")
    S["ctest"] = grab(render(dt.CTestDocumentation("n", "", [])), ".. warning:: ")
    S["test"] = grab(render(dt.TestDocumentation("n", "", False)), ".. warning:: ")
    S["section"] = grab(render(dt.SectionDocumentation("n", "", False)), ".. warning:: ")
    c = dt.ClassDocumentation("K", "", [], [], [], [dt.MethodDocumentation("m", "", "K", [], [], False, True)], [])
    S["method_macro"] = grab(render(c), ".. note:: ")
    # the option note is a paragraph inside an argument-less note directive
    t = render(dt.OptionDocumentation("n", "", "bool", None, "h"))
    a = t.index(".. note:: \n\n") + len(".. note:: \n\n")
    b = t.index("\n\n", a)
    body = t[a:b]
    S["option_note_lines"] = [l[6:] if l.startswith("      ") else l for l in body.split("\n")]
    need = {"macro": ["macro"], "generic": ["generic"], "ctest": ["CTest", "test"], "test": ["CMakeTest", "test"],
            "section": ["CMakeTest", "section"], "method_macro": ["macro"]}
    for k, words in need.items():
        for w in words:
            assert w in S[k], "sentence for %s lacks %r: %r" % (k, w, S[k])
    joined = " ".join(S["option_note_lines"])
    assert "option" in joined and "cache" in joined, joined
    return S


SENT = _learn()


def option_note(d):
    """argument-less note directive at depth d holding the learned paragraph"""
    return directive(d, "note", "", (), [para(d + 1, "\n".join(SENT["option_note_lines"]))])


# ------------------------------------------------------------------ entries (abstract, as plain tuples/dicts)
def sig(name, params, sep=" "):
    return name + "(" + sep.join(params) + ")"


def r_function(name, params, kwargs, doc, macro=False):
    ps = list(params) + (["**kwargs"] if kwargs else [])
    content = []
    if macro:
        content.append(directive(1, "note", SENT["macro"]))
    content.append(para(1, doc))
    return directive(0, "function", sig(name, ps), (), content)


def r_variable(name, doc, vtype, value):
    return directive(0, "data", name, (), [para(1, doc), field(1, "Default value", value), field(1, "type", vtype)])


def r_option(name, doc, help_text, default):
    return directive(0, "data", name, (), [option_note(1), para(1, doc), field(1, "Help text", help_text),
                                            field(1, "Default value", default if default is not None else "OFF"),
                                            field(1, "type", "bool")])


def r_generic(name, params, doc):
    return directive(0, "function", sig(name, params), (), [directive(1, "warning", SENT["generic"]), para(1, doc)])


def r_ctest(name, params, doc):
    return directive(0, "function", sig(name, params), (), [directive(1, "warning", SENT["ctest"]), para(1, doc)])


def r_test(name, expect_fail, doc, section=False):
    return directive(0, "function", name + "(" + ("EXPECTFAIL" if expect_fail else "") + ")", (),
                     [directive(1, "warning", SENT["section" if section else "test"]), para(1, doc)])


def r_method(d, name, params, types, doc, macro):
    """d = depth of the class directive's content"""
    pretty = ", ".join(params) + ("[, ...]" if "args" in types else "")
    content = []
    if macro:
        content.append(directive(d + 1, "note", SENT["method_macro"]))
    content.append(para(d + 1, doc))
    for i in range(min(len(types), len(params))):
        if (":param " + params[i] + ":") not in doc:
            content.append(field(d + 1, "param " + params[i], ""))
        if (":type " + params[i] + ":") not in doc:
            content.append(field(d + 1, "type " + params[i], types[i]))
    return directive(d, "py:method", name + "(" + pretty + ")", (), content)


def r_attribute(d, name, doc, default):
    opts = [("value", default)] if default is not None else []
    return directive(d, "py:attribute", name, opts, [para(d + 1, doc)])


def r_class(name, bases, doc, ctors=(), methods=(), attrs=(), inner=()):
    """ctors/methods: (name, params, types, doc, macro); attrs: (name, doc, default); inner: names"""
    content = []
    if len(bases) > 0:
        content.append(para(1, "Bases: " + ", ".join(":class:`" + b + "`" for b in bases) + "\n"))
    content.append(para(1, doc))
    if len(ctors) > 0:
        content.append(para(1, "**Additional Constructors**"))
        for m in ctors:
            content.append(r_method(1, *m))
    if len(methods) > 0:
        content.append(para(1, "**Methods**"))
        for m in methods:
            content.append(r_method(1, *m))
    if len(attrs) > 0:
        content.append(para(1, "**Attributes**"))
        for a in attrs:
            content.append(r_attribute(1, *a))
    if len(inner) > 0:
        content.append(para(1, "**Inner classes**"))
        content.append(bullets(1, [":class:`" + n + "`" for n in inner]))
    return directive(0, "py:class", name, (), content)


def r_module(name, doc):
    return directive(0, "module", name, (), [para(1, doc)] if doc else [])


def page(title, ch, module_name, module_doc, entries):
    s = heading(title, ch) + r_module(module_name, module_doc)
    for e in entries:
        s = s + e
    return s
