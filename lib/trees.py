"""Shard tables for the virtual-file-system harness (C13, C14, C15, C17, C18, C06.d, C12 lone file)."""
import vf

ENC = ["cminx.document (os.walk loop, pruning, auto-exclusion, index.rst construction)", "cminx.document_single_file",
       "cminx.rstwriter.RSTWriter / Directive.to_text / Option (index pages)", "posixpath.join/relpath/basename/dirname/normpath (real)"]
STUBS = "stubs: os.walk/scandir/isdir/isfile/exists/makedirs/abspath (virtual tree), pathspec matcher = symbolic verdict per path, " \
        "Documenter = writer whose text is a function of (file, title, module name), write_to_file/print recorded"

S1 = ("in", [], ["b.cmake", "A.CMAKE", "c.txt", "a.1-x.cmake", "a.cmake", "cmake"])      # a.1-x.cmake < a.cmake by name, > by (stem, ext), and both share the text before their first dot; "cmake": a file that is not *.cmake
S1r = ("in", [], ["b.cmake", "A.CMAKE", "a.1-x.cmake", "a.cmake", "cmake"])      # S1 without the plain non-CMake file (one symbolic verdict less)
S2 = ("in", [("z0", [], ["x.cmake"]), ("y1", [], ["x.cmake", "n.txt"])], ["b.cmake", "c.txt"])
S2q = ("in", [("z0", [], ["x.cmake"]), ("y1", [], ["x.cmake", "w.cmake"])], ["b.v2.cmake"])      # a base name with an inner dot
S2b = ("in", [("z0", [], ["n.txt"]), ("y1", [], ["M.CMake", "m.cmake"]), ("x2", [], ["q.cmake"])], ["b.cmake"])
S3 = ("in", [("d1", [("d2", [("d3", [], ["k.cmake"])], ["j.x.cmake"])], ["i.cmake"])], ["h.cmake"])
S4 = ("in", [("mid", [("deep", [], ["k.1.cmake"])], ["n.txt"])], ["h.cmake"])
S5 = ("in", [("docs", [], ["old.rst"]), ("docs-old", [], ["l.cmake"])], ["h.cmake", "g.cmake"])      # a sibling whose name starts with the output directory's name
S6 = ("in", [("Pkg", [], ["one.cmake"]), ("pkg", [], ["two.cmake"])], ["Utils.cmake", "utils.cmake", "alpha.cmake"])     # names differing only in case
S7 = ("in", [], ["index.cmake", "a.cmake"])      # known finding D15: the page of index.cmake and the directory index share one path
def chain_skel(depth):
    node = ("d%02d" % depth, [], ["m%02d.cmake" % depth])
    for d in range(depth - 1, 0, -1):
        node = ("d%02d" % d, [node], ["m%02d.cmake" % d])
    return ("in", [node], ["top.cmake"])


def wide_skel(nfiles, ndirs):
    return ("in", [("s%02d" % i, [], ["f.cmake"]) for i in range(ndirs)], ["f%02d.cmake" % i for i in range(nfiles)])


SKELS = {"CH12": chain_skel(12), "CH30": chain_skel(30), "W20": wide_skel(20, 12), "W60": wide_skel(60, 40), "S6": S6, "S1": S1, "S2": S2, "S2q": S2q, "S2b": S2b, "S3": S3, "S4": S4, "S5": S5, "S7": S7, "S1r": S1r}


def tree_ob(prefix, skel, mode, fix, fixp=True, fixrev=False, timeout=300, note="", fixexcl=False, prefixes=("P",)):
    sym = ("" if fixexcl else "matcher verdict of every entry and of the input path; ") + ("" if fixrev else "listing order of every directory") \
          + ("; presence of every entry" if not fixp else "") + "; " \
          + ", ".join(k for k in ("recursive", "auto_ex", "has_prefix", "sep2", "out_i", "ext_t", "ext_m", "excl_root") if k not in fix)
    return vf.CH(f"{prefix} {mode} skeleton={skel} fixed={sorted(fix.items())}{' presence symbolic' if not fixp else ''}{' no exclusions' if fixexcl else ''}{note}", "tree.py",
                 dict(SKEL=SKELS[skel], MODE=mode, FIXP=fixp, FIXREV=fixrev, FIXEXCL=fixexcl, FIX=fix, PREFIXES=tuple(prefixes), SUBTRACT=[]), timeout=timeout,
                 encodes=ENC, symbolic=sym, bound=f"tree skeleton {skel} = {SKELS[skel]!r}; names concrete (menu), {STUBS}")
