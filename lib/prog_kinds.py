# importable without cminx (used by props/*.py in the driver process)
KINDS = ["function", "macro", "set", "option", "cpp_class", "cpp_attr", "cpp_member", "cpp_constructor", "ct_add_test",
         "ct_add_section", "add_test", "generic"]
