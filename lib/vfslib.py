"""Virtual file system + stubs for the L5 harnesses (cminx.document / document_single_file), and the oracle spec_tree.

Contract of the OS stubs: an arbitrary finite tree that does not change during the run, listed in an arbitrary order
(no races, no I/O errors; symbolic links only where a mode introduces them: the input path itself, or one link to a sibling
directory inside the tree -- os.walk lists it and enters it only with followlinks). Pure path algebra is the real posixpath."""
import posixpath as pp

import cminx
import cminx.rstwriter as rw
from crosshair.tracers import NoTracing


class VFS:
    dirs = {}        # abs dir path -> (subdir names in listing order, file names in listing order)
    excluded = {}    # abs path (no trailing slash) -> matcher verdict
    cwd = "/w/cwd"
    writes = []      # (normalised abs path, text) in order
    mkdirs = []
    prints = []
    asked = []       # paths the matcher was asked about, as given
    docs = []        # Documenter constructions: (file, title, module_name)
    fail_on = None   # file whose Documenter.process raises (C06.d)
    rel_verdict2 = False
    patterns = []    # the pattern lists handed to the gitignore matcher (PathSpec.from_lines), one per call
    links = {}       # symbolic links to directories: link path -> target path (both absolute); only the input path itself is ever a link
    rel_verdict = False   # verdict of the matcher for any path that is NOT absolute (CMinx's contract is to ask with absolute paths;
                          # what a pattern makes of a cwd-relative spelling is arbitrary)

    @classmethod
    def reset(cls, dirs, excluded, cwd="/w/cwd"):
        cls.dirs, cls.excluded, cls.cwd = dirs, excluded, cwd
        cls.writes, cls.mkdirs, cls.prints, cls.asked, cls.docs = [], [], [], [], []
        cls.fail_on = None
        cls.links = {}
        cls.patterns = []


def _abs(p):
    return pp.normpath(pp.join(VFS.cwd, p))


def _res(k):
    """resolve a leading symbolic link (what the OS does when it opens the path)"""
    for l, t in VFS.links.items():
        if k == l or k.startswith(l + "/"):
            return t + k[len(l):]
    return k


def v_walk(top, topdown=True, followlinks=False):
    key = _res(_abs(top))
    subdirs, files = VFS.dirs[key]
    subdirs = list(subdirs)
    files = list(files)
    yield top, subdirs, files
    for d in subdirs:            # honours in-place edits of `subdirs`, like the real os.walk
        if not followlinks and _abs(pp.join(top, d)) in VFS.links:
            continue             # a symbolic link to a directory is listed, but entered only when links are followed
        yield from v_walk(pp.join(top, d), topdown, followlinks)


class Ent:
    def __init__(self, path, isf):
        self.path = path
        self.name = pp.basename(path)
        self._f = isf

    def is_file(self):
        return self._f

    def is_dir(self):
        return not self._f


def v_scandir(p):
    key = _res(_abs(p))
    subdirs, files = VFS.dirs[key]
    return [Ent(pp.join(p, d), False) for d in subdirs] + [Ent(pp.join(p, f), True) for f in files]


def v_isdir(p):
    k = _res(_abs(p))
    return k in VFS.dirs or k in VFS.mkdirs


def v_isfile(p):
    k = _res(_abs(p))
    d, f = pp.split(k)
    return d in VFS.dirs and f in VFS.dirs[d][1]


def v_exists(p):
    return v_isdir(p) or v_isfile(p)


def v_makedirs(p, exist_ok=False):
    k = _abs(p)
    if k not in VFS.mkdirs:
        VFS.mkdirs.append(k)


class Spec:
    def match_file(self, path):
        VFS.asked.append(path)
        if not path.startswith("/"):
            # two independent verdicts by the shape of the spelling: it depends on the working directory which one a path gets
            return VFS.rel_verdict if path.startswith("..") else VFS.rel_verdict2
        return VFS.excluded.get(_abs(path), False)


class _PathShimCls:
    """pure path algebra is the real posixpath; everything that looks at the file system is virtual (or unsupported)"""
    PURE = ("join", "basename", "normpath", "dirname", "split", "splitext", "isabs", "commonprefix", "commonpath", "sep", "curdir", "pardir", "extsep")
    relpath = staticmethod(lambda p, start=None: pp.relpath(_abs(p), _abs(start if start is not None else ".")))
    abspath = staticmethod(_abs)
    realpath = staticmethod(lambda p, strict=False: _res(_abs(p)))
    islink = staticmethod(lambda p: _abs(p) in VFS.links)
    isdir = staticmethod(v_isdir)
    isfile = staticmethod(v_isfile)
    exists = staticmethod(v_exists)

    def __getattr__(self, n):
        if n in self.PURE:
            return getattr(pp, n)
        raise AttributeError("os.path.%s is not part of the virtual file system model" % n)


_PathShim = _PathShimCls()


class _OsShim:
    path = _PathShim
    curdir, pardir, sep = ".", "..", "/"
    walk = staticmethod(v_walk)
    scandir = staticmethod(v_scandir)
    makedirs = staticmethod(v_makedirs)
    getcwd = staticmethod(lambda: VFS.cwd)


class FakeDocumenter:
    """returns a real RSTWriter whose text is a function of (file, title, module_name) only"""

    def __init__(self, file, title=None, module_name=None, settings=None):
        self.file = file
        VFS.docs.append((file, title, module_name))
        self.w = rw.RSTWriter("T", settings=settings)
        self.w.text("PAGE " + str(file) + " | " + str(title) + " | " + str(module_name))

    def process(self):
        if VFS.fail_on is not None and _abs(self.file) == VFS.fail_on:
            raise SyntaxError("injected processing failure")
        return self.w


def _rec_write(self, file):
    VFS.writes.append((_abs(file), str(self)))


def _rec_print(*a, **k):
    VFS.prints.append(" ".join(str(x) for x in a) + k.get("end", "\n"))


def _from_lines(factory, lines, *rest):
    VFS.patterns.append(list(lines))
    return Spec()


def install():
    cminx.os = _OsShim
    cminx.pathspec = type("ps", (), {"PathSpec": type("PS", (), {"from_lines": staticmethod(_from_lines)}),
                                      "patterns": type("pt", (), {"GitWildMatchPattern": None})})
    cminx.Documenter = FakeDocumenter
    cminx.print = _rec_print
    rw.RSTWriter.write_to_file = _rec_write


# ------------------------------------------------------------------------------------------------ skeletons -> concrete tree
def flatten(skel, base):
    """skel = (name, [subskels], [file names]); -> list of entries (abs path, is_dir, parent abs path) in a fixed order"""
    out = []

    def rec(node, parent):
        name, subs, files = node
        me = pp.join(parent, name) if parent else base
        for s in subs:
            out.append((pp.join(me, s[0]), True, me))
            rec(s, me)
        for f in files:
            out.append((pp.join(me, f), False, me))
    rec(skel, None)
    return out


def materialise(skel, base, present, rev):
    """dirs dict for the VFS: entry i exists iff present[i] (and its parent exists); listing of directory j reversed iff rev[j]"""
    ents = flatten(skel, base)
    alive = {base}
    dirs = {base: ([], [])}
    order = [base]
    for i, (p, isd, parent) in enumerate(ents):
        if parent in alive and present[i]:
            if isd:
                alive.add(p)
                dirs[p] = ([], [])
                order.append(p)
                dirs[parent][0].append(pp.basename(p))
            else:
                dirs[parent][1].append(pp.basename(p))
    alldirs = [base] + [p for (p, isd, _) in ents if isd]
    for j, d in enumerate(alldirs):
        # the order flag is consulted only where it can make a difference (>= 2 entries of a kind)
        if d in dirs and (len(dirs[d][0]) > 1 or len(dirs[d][1]) > 1) and rev[j]:
            dirs[d] = (list(reversed(dirs[d][0])), list(reversed(dirs[d][1])))
    return dirs, ents, alldirs


# ------------------------------------------------------------------------------------------------ the oracle
def stem(f):
    return f.rsplit(".", 1)[0]


def is_cmake(f):
    return f.lower().endswith(".cmake")


def spec_tree(dirs, excluded, base, out, recursive, auto_ex, prefix, sep, ext_titles=False, ext_modules=False):
    """-> (pages: {abs path: (file, title, module)}, indexes: {abs path: (title, sorted toctree entries)},
           order: list of (dir, [files in sorted order]) in a top-down walk)"""
    pages, indexes, order = {}, {}, []
    if excluded.get(base, False):
        return pages, indexes, order

    def cands(d):       # processed files of d: present, not excluded, *.cmake case-insensitively
        return sorted(f for f in dirs[d][1] if not excluded.get(pp.join(d, f), False) and is_cmake(f))

    def has_lower(d):   # what auto-exclusion looks for: a non-excluded lower-case .cmake file directly inside
        return any(f.endswith(".cmake") and not excluded.get(pp.join(d, f), False) for f in dirs[d][1])

    def visit(d):
        files = cands(d)
        subs = []
        if recursive:
            for s in dirs[d][0]:
                p = pp.join(d, s)
                if excluded.get(p, False):
                    continue
                if auto_ex and not has_lower(p):
                    continue
                subs.append(s)
        rel = pp.relpath(d, base)
        order.append((d, files))
        title = prefix if rel == "." else prefix + sep + rel
        if out is not None:
            indexes[pp.normpath(pp.join(out, rel, "index.rst"))] = (title, sorted([s + "/index.rst" for s in subs] + [stem(f) for f in files]))
        for f in files:
            relf = pp.relpath(pp.join(d, f), base)
            name = prefix + sep + relf
            t = name if ext_titles or not name.endswith(".cmake") else name[:-6]
            m = name if ext_modules or not name.endswith(".cmake") else name[:-6]
            if out is not None:
                pages[pp.normpath(pp.join(out, pp.dirname(relf), stem(f) + ".rst"))] = (pp.join(d, f), t, m)
            else:
                pages[pp.join(d, f)] = (pp.join(d, f), t, m)
        for s in (dirs[d][0]):          # walk order between directories = listing order (not fixed by the properties)
            if s in subs:
                visit(pp.join(d, s))
    visit(base)
    return pages, indexes, order


def parse_index(text):
    """title and toctree entries of a (concrete) index page"""
    ls = text.split("\n")
    title = ls[2]
    frame_ok = ls[1] == ls[3] and len(ls[1]) == len(title) and len(set(ls[1])) <= 1
    i = ls.index("   :maxdepth: 2")
    ok = ls[i - 1] == ".. toctree:: " and ls.count("   :maxdepth: 2") == 1
    return title, sorted(l.strip() for l in ls[i + 1:] if l.strip()), frame_ok and ok
