import argparse, importlib, os, sys
sys.setrecursionlimit(20000)
sys.path.insert(0, os.path.dirname(os.path.abspath(__file__)))
sys.path.insert(0, os.path.join(os.path.dirname(os.path.dirname(os.path.abspath(__file__))), "props"))
if os.environ.get("VERIF_REPO"):
    sys.path.insert(0, os.path.join(os.environ["VERIF_REPO"], "src"))
import vf

def main():
    ap = argparse.ArgumentParser()
    ap.add_argument("pid")
    ap.add_argument("--tier", default=os.environ.get("VERIF_TIER") or "quick", choices=["quick", "thorough"])
    ap.add_argument("--replay")
    ap.add_argument("--only", help="regex over obligation names (development aid; evidence is still written)")
    a = ap.parse_args()
    if a.replay:
        ok, why = vf.replay(a.replay)
        print(("REPRODUCED: " if ok else "not reproduced: ") + why)
        sys.exit(1 if ok else 0)
    mod = importlib.import_module(a.pid)
    spec = mod.build(a.tier)
    obs = spec["obligations"]
    if a.only:
        import re
        obs = [o for o in obs if re.search(a.only, o.name)]
    import meta
    m = meta.META[a.pid]
    rc = vf.main(a.pid, a.tier, obs, m["assumptions"] + ["every stub is listed in DESIGN.md section 3.5; every bound in the obligation's 'bound' field"],
                 m["explanation"], trusted=m["trusted"], outside=m["outside"])
    sys.exit(rc)
main()
