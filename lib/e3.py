"""Scratch prototype of E3: symbolic interpretation of cminx_gen_rst (cmake/cminx.cmake) into z3 terms."""
import re, time, sys
from z3 import *
from antlr4 import InputStream, CommonTokenStream
from cminx.parser.CMakeLexer import CMakeLexer
from cminx.parser.CMakeParser import CMakeParser

class Unsupported(Exception): pass

def commands(path):
    p = CMakeParser(CommonTokenStream(CMakeLexer(InputStream(open(path, encoding="utf-8").read()))))
    tree = p.cmake_file()
    out = []
    def walk(n):
        if isinstance(n, CMakeParser.Command_invocationContext):
            args = []
            for c in n.children[2:-1]:
                if isinstance(c, CMakeParser.Single_argumentContext):
                    t = c.children[0].symbol
                    args.append((t.type, t.text))
                else: raise Unsupported("compound argument")
            out.append((n.Identifier().getText().lower(), args))
        elif hasattr(n, "children") and n.children:
            for c in n.children: walk(c)
    walk(tree)
    return out

REF = re.compile(r"\$\{([A-Za-z0-9_.+/\-]+)\}")
class Env:
    """variables: name -> python list of z3 String elements (CMake list; elements assumed non-empty and ';'-free)"""
    def __init__(self, vars): self.vars = dict(vars)
    def expand(self, ttype, text):
        """-> list of argument strings (z3) produced by one source argument"""
        quoted = ttype == CMakeParser.Quoted_argument
        body = text[1:-1] if quoted else text
        if "\\" in body: raise Unsupported("escape in argument")
        parts = []; pos = 0
        for m in REF.finditer(body):
            if m.start() > pos: parts.append(("lit", body[pos:m.start()]))
            parts.append(("var", m.group(1))); pos = m.end()
        if pos < len(body): parts.append(("lit", body[pos:]))
        if "$" in "".join(p[1] for p in parts if p[0] == "lit"): raise Unsupported("unsupported reference syntax")
        if len(parts) == 1 and parts[0][0] == "var":
            v = self.vars.get(parts[0][1], [])
            if quoted:
                return [("joined", v)]          # one argument: elements joined by ';' (re-splits when stored in a list)
            return list(v)                       # unquoted: one argument per element, none if empty
        if any(p[0] == "var" for p in parts):
            # text and references mixed ("${out}/*.rst"): one argument, the references replaced by their values (a list value joined by ';');
            # unquoted, a reference to a list of several elements would split the argument: not supported
            if not quoted and any(p[0] == "var" and len(self.vars.get(p[1], [])) > 1 for p in parts):
                raise Unsupported("unquoted argument mixing text and a list reference")
            # the value is text with the list separators of the referenced lists in it: as an argument it is one string (elements
            # joined by ';'), stored into a list it splits again at those separators
            elems = []
            cur = None
            def app(x, y):
                return y if x is None else Concat(x, y)
            for p in parts:
                if p[0] == "lit":
                    cur = app(cur, StringVal(p[1]))
                else:
                    v = self.vars.get(p[1], [])
                    if len(v) == 0:
                        continue
                    cur = app(cur, v[0])
                    if len(v) > 1:
                        elems.append(cur)
                        elems.extend(v[1:-1])
                        cur = v[-1]
            elems.append(cur if cur is not None else StringVal(""))
            return [("joined", elems)]
        return [StringVal(body)]

def flatten(items):
    out = []
    for it in items:
        if isinstance(it, tuple) and it[0] == "joined": out.extend(it[1])
        else: out.append(it)
    return out
def as_arg(it):
    if isinstance(it, tuple) and it[0] == "joined":
        if len(it[1]) == 1: return it[1][0]
        if len(it[1]) == 0: return StringVal("")
        r = it[1][0]
        for e in it[1][1:]: r = Concat(r, StringVal(";"), e)
        return r
    return it


MUTATING_FILE_SUBCOMMANDS = ("REMOVE", "REMOVE_RECURSE", "WRITE", "APPEND", "TOUCH", "TOUCH_NOCREATE", "RENAME", "COPY", "COPY_FILE", "MAKE_DIRECTORY",
                             "CREATE_LINK", "CHMOD", "CHMOD_RECURSE", "GENERATE", "CONFIGURE", "INSTALL", "DOWNLOAD", "ARCHIVE_EXTRACT", "ARCHIVE_CREATE")
FALSE_CONSTANTS = ["", "0", "OFF", "NO", "FALSE", "N", "IGNORE", "NOTFOUND"]


def truthy(e):
    """if(<variable>) on one list element: true unless the value is a false constant (upper/lower case spellings) or ends in -NOTFOUND"""
    if is_string_value(e):
        v = e.as_string()
        return BoolVal(not (v.upper() in FALSE_CONSTANTS or v.upper().endswith("-NOTFOUND")))
    alts = [e == StringVal(c) for c in FALSE_CONSTANTS] + [e == StringVal(c.lower()) for c in FALSE_CONSTANTS if c.lower() != c]
    return And(Not(Or(*alts)), Not(SuffixOf(StringVal("-NOTFOUND"), e)), Not(SuffixOf(StringVal("-notfound"), e)))


EXISTS_F = Function("EXISTS", StringSort(), BoolSort())


def condition(args, env, isdir, envlog):
    """if(<condition>): NOT / AND / OR over IS_DIRECTORY, EXISTS, STREQUAL (quoted operands), DEFINED and variable truth.
    -> python bool or z3 Bool"""
    toks = list(args)
    pos = [0]

    def peek():
        return toks[pos[0]] if pos[0] < len(toks) else None

    def word(tk):
        return tk[1] if tk is not None and tk[0] != CMakeParser.Quoted_argument else None

    def lift(x):
        return BoolVal(x) if isinstance(x, bool) else x

    def simp(x):
        x = simplify(x) if not isinstance(x, bool) else x
        if isinstance(x, bool):
            return x
        return True if is_true(x) else (False if is_false(x) else x)

    def atom():
        tk = peek()
        if tk is None:
            raise Unsupported("empty condition")
        w = word(tk)
        if w in ("IS_DIRECTORY", "EXISTS") and pos[0] + 1 < len(toks):
            pos[0] += 1
            (a_,) = env.expand(*toks[pos[0]])
            pos[0] += 1
            t_ = as_arg(a_)
            if w == "IS_DIRECTORY":
                return isdir(t_)
            envlog.append(("exists", t_, EXISTS_F(t_)))
            return EXISTS_F(t_)
        if w == "DEFINED" and pos[0] + 1 < len(toks):
            pos[0] += 2
            return toks[pos[0] - 1][1] in env.vars
        nxt = word(toks[pos[0] + 1]) if pos[0] + 1 < len(toks) else None
        if nxt == "STREQUAL" and pos[0] + 2 < len(toks) and tk[0] == CMakeParser.Quoted_argument and toks[pos[0] + 2][0] == CMakeParser.Quoted_argument:
            (l_,) = env.expand(*tk)
            (r_,) = env.expand(*toks[pos[0] + 2])
            pos[0] += 3
            lz, rz = as_arg(l_), as_arg(r_)
            if is_string_value(lz) and is_string_value(rz):
                return lz.as_string() == rz.as_string()
            return lz == rz
        if nxt in ("STREQUAL", "GREATER", "LESS", "EQUAL", "MATCHES", "IN_LIST", "VERSION_LESS", "VERSION_GREATER", "STRLESS", "STRGREATER"):
            raise Unsupported("if(... %s ...)" % nxt)
        if w is not None and REF.search(w) is None and not w.startswith("$") and w not in ("(", ")"):
            # if(<variable|constant>)
            pos[0] += 1
            if w not in env.vars:
                return w.upper() in ("1", "ON", "YES", "TRUE", "Y") or (w.isdigit() and int(w) != 0)
            v_ = env.vars[w]
            if len(v_) == 0:
                return False
            if len(v_) > 1:
                return True                     # a list of several elements: "a;b" is no false constant
            return truthy(v_[0])
        raise Unsupported("if(" + " ".join(t[1] for t in toks) + ")")

    def not_():
        if word(peek()) == "NOT":
            pos[0] += 1
            x = not_()
            return (not x) if isinstance(x, bool) else Not(x)
        return atom()

    def and_():
        x = not_()
        while word(peek()) == "AND":
            pos[0] += 1
            y = not_()
            x = And(lift(x), lift(y))
        return x

    def or_():
        x = and_()
        while word(peek()) == "OR":
            pos[0] += 1
            y = and_()
            x = Or(lift(x), lift(y))
        return x
    r = or_()
    if pos[0] != len(toks):
        raise Unsupported("if(" + " ".join(t[1] for t in toks) + ")")
    return simp(r)


def interpret_paths(cmds, fname, actual_args, extra_vars, isdir):
    """DFS over symbolic if-conditions: returns list of (path_condition, execute_process calls)"""
    results = []

    def decide(cond, decisions, nd, pc):
        """fork on a symbolic Boolean: replay a recorded decision, or explore the False branch in a sibling run and take True here"""
        if nd < len(decisions):
            take = decisions[nd]
        else:
            run(decisions + [False])
            take = True
            decisions = decisions + [True]
        pc.append(cond if take else Not(cond))
        return take, decisions, nd + 1

    def run(decisions):
        i = next(k for k, (n, a) in enumerate(cmds) if n == "function" and a and a[0][1] == fname)
        params = [a[1] for a in cmds[i][1][1:]]
        env = Env(extra_vars)
        for p, v in zip(params, actual_args): env.vars[p] = [v]
        env.vars["ARGC"] = [StringVal(str(len(actual_args)))]
        env.vars["ARGN"] = list(actual_args[len(params):])
        env.vars["ARGV"] = list(actual_args)
        for j_, v_ in enumerate(actual_args):
            env.vars["ARGV%d" % j_] = [v_]
        argc = len(actual_args)
        pc = []; calls = []; nd = 0
        effects = []      # file-system mutations performed by the function itself: (subcommand, [argument terms])
        envlog = []       # what the path assumed about the file system: ("exists", path term, z3 Bool) / ("strings", path term, z3 Bool non-empty, regex or None)
        skip = 0          # depth of disabled if-nesting
        stack = []        # per open if: was it taken?
        k = i + 1
        while cmds[k][0] != "endfunction":
            name, args = cmds[k]; k += 1
            if name == "if":
                if skip: skip += 1; continue
                words = [s_ for (t, s_) in args]
                if len(words) == 3 and words[1] == "GREATER" and words[0] == "${ARGC}":
                    take = argc > int(words[2])
                else:
                    cond = condition(args, env, isdir, envlog)
                    if cond is True or cond is False:
                        take = cond
                    else:
                        take, decisions, nd = decide(cond, decisions, nd, pc)
                if take: stack.append(True)
                else: skip = 1
                continue
            if name == "endif":
                if skip: skip -= 1
                else: stack.pop()
                continue
            if name in ("else", "elseif"): raise Unsupported(name)
            if skip: continue
            if name == "set":
                vals = flatten([x for (t, s_) in args[1:] for x in env.expand(t, s_)])
                env.vars[args[0][1]] = [v for v in vals if not (is_string_value(v) and v.as_string() == "")]
            elif name == "list" and args and args[0][1] == "APPEND":
                var = args[1][1]
                env.vars[var] = env.vars.get(var, []) + flatten([x for (t, s_) in args[2:] for x in env.expand(t, s_)])
            elif name == "list" and args and args[0][1] == "PREPEND":
                var = args[1][1]
                env.vars[var] = flatten([x for (t, s_) in args[2:] for x in env.expand(t, s_)]) + env.vars.get(var, [])
            elif name == "list" and args and args[0][1] == "REMOVE_ITEM" and len(args) >= 3:
                # removes EVERY element equal to one of the given values
                var = args[1][1]
                gone = flatten([x for (t, s_) in args[2:] for x in env.expand(t, s_)])
                keep = []
                for e in env.vars.get(var, []):
                    hit = False
                    for g_ in gone:
                        if is_string_value(e) and is_string_value(g_):
                            same = e.as_string() == g_.as_string()
                        elif e is g_ or e.eq(g_):
                            same = True
                        else:
                            same, decisions, nd = decide(e == g_, decisions, nd, pc)
                        if same:
                            hit = True
                            break
                    if not hit:
                        keep.append(e)
                env.vars[var] = keep
            elif name == "list" and args and args[0][1] == "REMOVE_DUPLICATES" and len(args) == 2:
                var = args[1][1]
                keep = []
                for e in env.vars.get(var, []):
                    dup = False
                    for k_ in keep:
                        if is_string_value(e) and is_string_value(k_):
                            same = e.as_string() == k_.as_string()
                        else:
                            same, decisions, nd = decide(e == k_, decisions, nd, pc)
                        if same:
                            dup = True
                            break
                    if not dup:
                        keep.append(e)
                env.vars[var] = keep
            elif name == "return":
                break
            elif name == "file" and args and args[0][1] in ("GLOB", "GLOB_RECURSE") and len(args) >= 2:
                # the file system is environment: the glob result is an arbitrary list -- empty, or some non-empty list
                b_ = Bool("glob_%d_nonempty" % nd)
                pats = [as_arg(x) for (t, s_) in args[2:] if not (t != CMakeParser.Quoted_argument and s_ in ("FOLLOW_SYMLINKS", "LIST_DIRECTORIES", "RELATIVE", "CONFIGURE_DEPENDS", "true", "false"))
                        for x in env.expand(t, s_)]
                envlog.append(("glob", pats[0] if pats else StringVal(""), b_, None))
                nonempty, decisions, nd = decide(b_, decisions, nd, pc)
                env.vars[args[1][1]] = [String("glob_%d_first" % nd)] if nonempty else []
            elif name == "file" and args and args[0][1] in MUTATING_FILE_SUBCOMMANDS:
                # the function changes the file system itself: recorded (the spec allows no effect but the cminx process)
                targets = flatten([x for (t, s_) in args[1:] for x in env.expand(t, s_)])
                if targets:
                    effects.append((args[0][1], [as_arg(x) for x in targets]))
            elif name == "file" and args and args[0][1] == "STRINGS" and len(args) >= 3:
                # file(STRINGS <file> <var> [REGEX <re>]): the file's content is environment -- the result is empty or some non-empty list
                (f_,) = env.expand(*args[1])
                rgx = None
                for j in range(3, len(args) - 1):
                    if args[j][1] == "REGEX" and args[j][0] != CMakeParser.Quoted_argument:
                        rgx = args[j + 1][1]
                        rgx = rgx[1:-1] if args[j + 1][0] == CMakeParser.Quoted_argument else rgx
                b_ = Bool("strings_%d_%d_nonempty" % (k, nd))
                envlog.append(("strings", as_arg(f_), b_, rgx))
                nonempty, decisions, nd = decide(b_, decisions, nd, pc)
                env.vars[args[2][1]] = [String("strings_%d_%d_first" % (k, nd))] if nonempty else []
                if nonempty:
                    pc.append(truthy(env.vars[args[2][1]][0]))      # some line: chosen by the environment, e.g. a true constant
            elif name == "cmake_parse_arguments" and len(args) >= 4 and all(t != CMakeParser.Quoted_argument or "$" not in s_ for (t, s_) in args[:4]):
                prefix = args[0][1]
                kws = []
                for j, kind_ in ((1, "opt"), (2, "one"), (3, "multi")):
                    body = args[j][1][1:-1] if args[j][0] == CMakeParser.Quoted_argument else args[j][1]
                    kws += [(w, kind_) for w in body.split(";") if w]
                vals = flatten([x for (t, s_) in args[4:] for x in env.expand(t, s_)])
                for (w, kind_) in kws:
                    env.vars.pop(prefix + "_" + w, None)
                    if kind_ == "opt":
                        env.vars[prefix + "_" + w] = [StringVal("FALSE")]
                cur = None
                unparsed = []
                for v in vals:
                    hit = None
                    for (w, kind_) in kws:
                        if is_string_value(v):
                            same = v.as_string() == w
                        else:
                            same, decisions, nd = decide(v == StringVal(w), decisions, nd, pc)
                        if same:
                            hit = (w, kind_)
                            break
                    if hit is not None:
                        if hit[1] == "opt":
                            env.vars[prefix + "_" + hit[0]] = [StringVal("TRUE")]
                            cur = None
                        else:
                            cur = hit
                            if hit[1] == "multi":
                                env.vars[prefix + "_" + hit[0]] = []
                        continue
                    if cur is None:
                        unparsed.append(v)
                    elif cur[1] == "one":
                        env.vars[prefix + "_" + cur[0]] = [v]
                        cur = None
                    else:
                        env.vars[prefix + "_" + cur[0]] = env.vars.get(prefix + "_" + cur[0], []) + [v]
                env.vars[prefix + "_UNPARSED_ARGUMENTS"] = unparsed
            elif name == "get_filename_component" and len(args) >= 3:
                # get_filename_component(<var> <path> <mode>): an uninterpreted function of the path per mode -- whatever it
                # computes, the result is not known to equal the path as given
                (a_,) = env.expand(*args[1])
                mode = args[2][1]
                fn = Function("get_filename_component_" + mode, StringSort(), StringSort())
                env.vars[args[0][1]] = [fn(as_arg(a_))]
            elif name == "execute_process":
                KW = {"COMMAND", "OUTPUT_VARIABLE", "ERROR_VARIABLE", "RESULT_VARIABLE", "COMMAND_ERROR_IS_FATAL", "WORKING_DIRECTORY"}
                opts = {}; cmd = []; mode = None
                for (t, s_) in args:
                    if t != CMakeParser.Quoted_argument and s_ in KW: mode = s_; opts.setdefault(s_, []); continue
                    if mode == "COMMAND": cmd.extend(as_arg(x) for x in env.expand(t, s_))
                    elif mode is None: raise Unsupported("execute_process argument before keyword")
                    else: opts[mode].append(s_)
                calls.append((cmd, opts))
            else: raise Unsupported("command " + name)
        results.append((And(*pc) if pc else BoolVal(True), calls, envlog, effects))
    run([])
    return results


# ------------------------------------------------------------------------------------------------ obligations
import json, os, subprocess, shutil, time
import vf

CMAKE_FILE = os.path.join(vf.REPO, "cmake", "cminx.cmake")


def spec_ok(call, exe, inp, outp, extra, isdir):
    """spec_argv: argv = executable, then -- as a multiset of argparse items, argparse being order-insensitive between
    optionals -- the positional input, the pair -o output, -r iff directory, the extra arguments as one contiguous
    order-preserving block; and the call is fatal on error."""
    cmd, opts = call
    if opts.get("COMMAND_ERROR_IS_FATAL") != ["ANY"]:
        return BoolVal(False)
    n = len(cmd)
    k = len(extra)
    alts = []
    # enumerate the placements of the items (shapes are concrete: list lengths are concrete per run)
    def layouts(with_r):
        items = [("pos",), ("o",), ("extra",)] + ([("r",)] if with_r else [])
        import itertools
        for perm in itertools.permutations(items):
            seq = []
            for it in perm:
                if it == ("pos",): seq.append(inp)
                elif it == ("o",): seq += [StringVal("-o"), outp]
                elif it == ("r",): seq.append(StringVal("-r"))
                else: seq += list(extra)
            yield seq
    def eq(a, b):
        return BoolVal(False) if len(a) != len(b) else And(*[x == y for x, y in zip(a, b)]) if a else BoolVal(True)
    if n == 0:
        return BoolVal(False)
    with_r = Or(*[And(cmd[0] == exe, eq(cmd[1:], seq)) for seq in layouts(True)])
    without_r = Or(*[And(cmd[0] == exe, eq(cmd[1:], seq)) for seq in layouts(False)])
    return If(isdir, with_r, without_r)


def ob_argv(pid, label="C19.a"):
    def fn(work):
        t0 = time.time()
        cmds = commands(CMAKE_FILE)
        inp, outp, exe = Strings("input output exe")
        isdir_f = Function("IS_DIRECTORY", StringSort(), BoolSort())
        nq = 0
        samples = []
        nval = 0
        for k in range(0, 4):
            extra = [String("x%d" % j) for j in range(k)]
            paths = interpret_paths(cmds, "cminx_gen_rst", [inp, outp] + extra, {"CMINX_EXECUTABLE": [exe]}, lambda x: isdir_f(x))
            d = isdir_f(inp)
            bad = []
            for (pc, calls, envlog, effects) in paths:
                ok = spec_ok(calls[0], exe, inp, outp, extra, d) if len(calls) == 1 else BoolVal(False)
                if effects:          # the output tree is exactly what the cminx process produces: the function itself touches nothing
                    ok = BoolVal(False)
                bad.append(And(pc, Not(ok)))
            s = Solver()
            s.set("timeout", 60000)
            s.add(Or(*bad))
            # the quantifier's extra arguments are ordinary flags and values: non-empty, no ';' (CMake list separator);
            # they do not look like the function's own flags
            for x in extra:
                s.add(Length(x) > 0, Not(Contains(x, ";")))
            s.add(Length(inp) > 0, Length(outp) > 0, Length(exe) > 0, Not(Contains(inp, ";")), Not(Contains(outp, ";")), Not(Contains(exe, ";")))
            r = s.check(); nq += 1
            if str(r) == "sat":
                m = s.model()
                import rx
                vals = {str(v): rx.decode_z3_string(m.eval(v, model_completion=True)) for v in [inp, outp, exe] + extra}
                isd = is_true(m.eval(d, model_completion=True))
                # what the failing path assumed about the file system (EXISTS, file(STRINGS)) is made true for the replay
                actions = []
                for (b_, (pc, calls, envlog, effects)) in zip(bad, paths):
                    if is_true(m.eval(b_, model_completion=True)):
                        for ev in envlog:
                            pth = rx.decode_z3_string(m.eval(ev[1], model_completion=True))
                            if ev[0] == "exists":
                                actions.append(("exists", pth, is_true(m.eval(ev[2], model_completion=True)), None))
                            elif ev[0] == "glob":
                                actions.append(("glob", pth, is_true(m.eval(ev[2], model_completion=True)), None))
                            else:
                                actions.append(("strings", pth, is_true(m.eval(ev[2], model_completion=True)), ev[3]))
                        break
                ok, why = replay_cmake(work, vals, isd, k, actions)
                rep = os.path.join(vf.ROOT, "replays", pid, "argv_k%d.json" % k)
                os.makedirs(os.path.dirname(rep), exist_ok=True)
                json.dump({"property": pid, "obligation": label, "model": vals, "input_is_directory": isd, "file_system_assumed": actions, "replay": why}, open(rep, "w"), indent=1)
                if ok:
                    return dict(verdict=vf.VIOLATION, replay=rep, paths=nq, detail="|ARGN|=%d model %s dir=%s: %s" % (k, vals, isd, why))
                return dict(verdict=vf.HARNESS_ERROR, paths=nq, detail="model did not reproduce under real cmake -P: %s %s" % (vals, why))
            if str(r) != "unsat":
                return dict(verdict=vf.INCONCLUSIVE, paths=nq, detail="z3: %s for |ARGN|=%d" % (r, k))
            samples.append({"extra_args": k, "interpreted_paths": len(paths)})
            # translator validation: the model's argv for concrete values == what real cmake passes to the executable
            okv, whyv = validate_cmake(work, k)
            if not okv:
                return dict(verdict=vf.HARNESS_ERROR, paths=nq, detail="interpreter disagrees with real cmake: " + whyv)
            nval += 2
        okf, whyf, nf = validate_fixture(work)
        if not okf:
            return dict(verdict=vf.HARNESS_ERROR, paths=nq, detail="interpreter disagrees with real cmake on the fixture: " + whyf)
        nval += nf
        return dict(verdict=vf.HOLDS, paths=nq, samples=samples, validated=nval, cpu_s=time.time() - t0,
                    detail="argv == spec_argv and COMMAND_ERROR_IS_FATAL ANY on every interpreted path, 0..3 extra arguments")
    return vf.FN("%s cminx_gen_rst: argv of the cminx process == spec_argv; failure is fatal" % label, fn,
                 engine="E3: symbolic interpretation of the CMake function body -> z3 string terms; negated spec -> unsat",
                 encodes=["cmake/cminx.cmake: cminx_gen_rst (parsed from the working tree at run time)"],
                 symbolic="input, output, executable, up to 3 extra arguments (strings), IS_DIRECTORY(input)", bound="|ARGN| <= 3; arguments non-empty and free of ';'")


_RECORDER = """#!/bin/sh
for a in "$@"; do printf '%s\n' "$a"; done > "$CMINX_ARGV_OUT"
exit ${CMINX_FAKE_RC:-0}
"""


def run_cmake(work, inp, outp, extra, rc=0, cwd=None, cmake_file=None, fname="cminx_gen_rst"):
    """real cmake -P with CMINX_EXECUTABLE bound to an argv recorder -> (argv list or None, cmake exit code)"""
    d = os.path.join(work, "cmk")
    os.makedirs(d, exist_ok=True)
    rec = os.path.join(d, "recorder.sh")
    open(rec, "w").write(_RECORDER)
    os.chmod(rec, 0o755)
    out = os.path.join(d, "argv.txt")
    if os.path.exists(out):
        os.remove(out)
    q = lambda s: '"' + s.replace("\\", "\\\\").replace('"', '\\"').replace("$", "\\$") + '"'
    script = os.path.join(d, "run.cmake")
    open(script, "w").write('set(CMINX_EXECUTABLE %s)\ninclude(%s)\n%s(%s)\n' % (q(rec), q(cmake_file or CMAKE_FILE), fname, " ".join(q(a) for a in [inp, outp] + list(extra))))
    env = dict(os.environ, CMINX_ARGV_OUT=out, CMINX_FAKE_RC=str(rc))
    p = subprocess.run(["cmake", "-P", script], env=env, capture_output=True, text=True, timeout=60, cwd=cwd)
    argv = open(out).read().split("\n")[:-1] if os.path.exists(out) else None
    return argv, p.returncode


def spec_concrete(argv, inp, outp, extra, isdir):
    if argv is None:
        return False
    rest = list(argv)
    def remove_block(block):
        for i in range(len(rest) - len(block) + 1):
            if rest[i:i + len(block)] == block:
                del rest[i:i + len(block)]
                return True
        return False
    ok = remove_block(list(extra)) if extra else True
    ok = ok and remove_block(["-o", outp]) and remove_block([inp])
    if isdir:
        ok = ok and remove_block(["-r"])
    return ok and rest == []


def validate_cmake(work, k):
    if shutil.which("cmake") is None:
        return True, "cmake not installed: validation skipped"
    d = os.path.join(work, "cmk_in")
    os.makedirs(d, exist_ok=True)
    f = os.path.join(d, "one.cmake")
    open(f, "w").write("")
    extra = ["-p", "pre", "-e"][:k]
    for (inp, isdir) in ((d, True), (f, False)):
        argv, rc = run_cmake(work, inp, os.path.join(work, "cmk_out"), extra)
        if rc != 0 or not spec_concrete(argv, inp, os.path.join(work, "cmk_out"), extra, isdir):
            return False, "cmake -P: rc=%s argv=%r for input %r extra %r" % (rc, argv, inp, extra)
    # failure propagation: the child fails => cmake fails
    argv, rc = run_cmake(work, d, os.path.join(work, "cmk_out"), extra, rc=3)
    if rc == 0:
        return False, "child exit status 3 did not make cmake -P fail"
    return True, ""


def sample_of_regex(rgx):
    """some text with a match of the (CMake ~ POSIX ERE) regular expression, or None"""
    try:
        import re._parser as sp
    except ImportError:
        import sre_parse as sp
    import re as pyre

    def gen(items):
        out = ""
        for (op, av) in items:
            op = str(op)
            if op == "LITERAL": out += chr(av)
            elif op == "ANY": out += "x"
            elif op in ("MAX_REPEAT", "MIN_REPEAT"): out += gen(av[2]) * av[0]
            elif op == "SUBPATTERN": out += gen(av[3])
            elif op == "BRANCH": out += gen(av[1][0])
            elif op == "AT": pass
            elif op == "IN":
                first = av[0]
                if str(first[0]) == "LITERAL": out += chr(first[1])
                elif str(first[0]) == "RANGE": out += chr(first[1][0])
                else: raise ValueError("character class")
            else: raise ValueError(op)
        return out
    try:
        t = gen(list(sp.parse(rgx)))
        return t if pyre.search(rgx, t) else None
    except Exception:
        return None


def validate_fixture(work):
    """interpreter vs real cmake -P on lib/e3_fixture.cmake (conditions, cmake_parse_arguments, file(STRINGS), list operations), concrete
    arguments and a concrete file system: the argv must agree exactly. -> (ok, why, scenarios)"""
    if shutil.which("cmake") is None:
        return True, "cmake not installed: validation skipped", 0
    fx = os.path.join(os.path.dirname(os.path.abspath(__file__)), "e3_fixture.cmake")
    cmds = commands(fx)
    base = os.path.join(work, "fx")
    shutil.rmtree(base, ignore_errors=True)
    os.makedirs(os.path.join(base, "dir"))
    open(os.path.join(base, "file.cmake"), "w").write("")
    open(os.path.join(base, "s_off.yaml"), "w").write("input:\n  recursive: false\n")
    open(os.path.join(base, "s_on.yaml"), "w").write("input:\n  recursive: true\n")
    D, F = os.path.join(base, "dir"), os.path.join(base, "file.cmake")
    scen = [(D, []), (F, ["-p", "x"]), (D, ["-s", os.path.join(base, "s_off.yaml")]), (D, ["-s", os.path.join(base, "s_on.yaml")]),
            (D, ["-s", os.path.join(base, "missing.yaml"), "extra"]), (D, ["-t", "T", "QUIET"]), (D, ["MANY", "a", "b", "-t", "OFF"]), (F, ["MANY", "a", "QUIET"]),
            (D, ["x", "-s", "0"]), (D, ["QUIET", "-s"])]
    rec = os.path.join(work, "cmk", "recorder.sh")
    n = 0
    for (inp, extra) in scen:
        argv, rc = run_cmake(work, inp, "OUT", extra, cmake_file=fx, fname="fx_gen")
        if argv is None:
            return False, "real cmake produced no argv for %r %r (rc %s)" % (inp, extra, rc), n
        paths = interpret_paths(cmds, "fx_gen", [StringVal(inp), StringVal("OUT")] + [StringVal(x) for x in extra], {"CMINX_EXECUTABLE": [StringVal(rec)]},
                                lambda x: BoolVal(os.path.isdir(x.as_string())) if is_string_value(x) else BoolVal(False))
        got = None
        for (pc, calls, envlog, effects) in paths:
            s_ = Solver()
            s_.add(pc)
            for ev in envlog:
                pth = simplify(ev[1])
                if not is_string_value(pth):
                    return False, "symbolic path in a concrete run", n
                full = pth.as_string()
                if ev[0] == "exists":
                    s_.add(ev[2] == BoolVal(os.path.exists(full)))
                else:
                    hit = False
                    if os.path.isfile(full):
                        import re as pyre
                        hit = any((pyre.search(ev[3], ln) if ev[3] is not None else True) for ln in open(full).read().split("\n") if ln != "" or ev[3] is None)
                    s_.add(ev[2] == BoolVal(hit))
            if str(s_.check()) == "sat":
                m = s_.model()
                if len(calls) != 1:
                    return False, "interpreter: %d execute_process calls" % len(calls), n
                got = []
                for a in calls[0][0]:
                    v = m.eval(a, model_completion=True)
                    got.append(v.as_string() if is_string_value(v) else None)
                break
        if got is None:
            return False, "no interpreted path matches the real file system for %r %r" % (inp, extra), n
        # a line found by file(STRINGS) is a fresh symbolic value in the interpreter: it never reaches the argv in the fixture
        if got[1:] != argv:
            return False, "interpreter argv %r != real cmake argv %r for input %r extra %r" % (got[1:], argv, inp, extra), n
        n += 1
    return True, "", n


def replay_cmake(work, vals, isd, k, actions=()):
    if shutil.which("cmake") is None:
        return True, "cmake not installed: model accepted without replay"
    base = os.path.join(work, "cmk_replay")
    shutil.rmtree(base, ignore_errors=True)
    os.makedirs(base)
    # the input is reached through a symbolic link (an ordinary situation: versioned directories, build trees), so that a
    # change which resolves / rewrites the path before forwarding it shows up under the real cmake too
    real = os.path.join(base, "real_in")
    inp = os.path.join(base, "in")
    if isd:
        os.makedirs(real)
    else:
        open(real, "w").write("")
    os.symlink(real, inp)
    extra = [vals["x%d" % j] for j in range(k)]
    # the file system the failing path assumed: files named by the model (relative names: relative to the directory cmake runs in)
    content = {}
    for (kind, pth, flag, rgx) in actions:
        full = os.path.normpath(os.path.join(base, pth))
        if not full.startswith(base + os.sep):
            return False, "the model names a file outside the replay directory (%r): not replayed" % pth
        if kind == "exists":
            if flag: content.setdefault(full, "")
        elif kind == "glob":
            if flag: content.setdefault(full.replace("*", "x").replace("?", "y"), "stale")
        elif flag:
            line = sample_of_regex(rgx) if rgx is not None else "x"
            if line is None:
                return False, "no sample text for the regular expression %r: not replayed" % rgx
            content[full] = content.get(full, "") + line + "\n"
    for full, text in content.items():
        os.makedirs(os.path.dirname(full), exist_ok=True)
        open(full, "w").write(text)
    def snapshot():
        out = {}
        for r_, ds_, fs_ in os.walk(base):
            for f_ in fs_:
                p_ = os.path.join(r_, f_)
                if not os.path.islink(p_):
                    out[p_] = open(p_, "rb").read()
        return out
    before = snapshot()
    argv, rc = run_cmake(work, inp, vals["output"], extra, cwd=base)
    after = snapshot()
    good = spec_concrete(argv, inp, vals["output"], extra, isd)
    changed = sorted(set(before) ^ set(after)) + sorted(p_ for p_ in before if p_ in after and before[p_] != after[p_])
    # (the stand-in executable only records its argv outside this directory: whatever changed here was done by the CMake function itself)
    return (not good) or bool(changed), "real cmake passed argv %r (rc %s)%s%s" % (argv, rc, (" with files " + repr(sorted(content))) if content else "",
                                                                               ("; the function itself changed " + repr(changed)) if changed else "")
