"""Scratch prototype of E3: symbolic interpretation of cminx_gen_rst (cmake/cminx.cmake) into z3 terms."""
import re, time, sys
from z3 import *
from antlr4 import InputStream, CommonTokenStream
from cminx.parser.CMakeLexer import CMakeLexer
from cminx.parser.CMakeParser import CMakeParser

class Unsupported(Exception): pass

def commands(path):
    p = CMakeParser(CommonTokenStream(CMakeLexer(InputStream(open(path, encoding="utf-8").read()))))
    tree = p.cmake_file()
    out = []
    def walk(n):
        if isinstance(n, CMakeParser.Command_invocationContext):
            args = []
            for c in n.children[2:-1]:
                if isinstance(c, CMakeParser.Single_argumentContext):
                    t = c.children[0].symbol
                    args.append((t.type, t.text))
                else: raise Unsupported("compound argument")
            out.append((n.Identifier().getText().lower(), args))
        elif hasattr(n, "children") and n.children:
            for c in n.children: walk(c)
    walk(tree)
    return out

REF = re.compile(r"\$\{([A-Za-z0-9_]+)\}")
class Env:
    """variables: name -> python list of z3 String elements (CMake list; elements assumed non-empty and ';'-free)"""
    def __init__(self, vars): self.vars = dict(vars)
    def expand(self, ttype, text):
        """-> list of argument strings (z3) produced by one source argument"""
        quoted = ttype == CMakeParser.Quoted_argument
        body = text[1:-1] if quoted else text
        if "\\" in body: raise Unsupported("escape in argument")
        parts = []; pos = 0
        for m in REF.finditer(body):
            if m.start() > pos: parts.append(("lit", body[pos:m.start()]))
            parts.append(("var", m.group(1))); pos = m.end()
        if pos < len(body): parts.append(("lit", body[pos:]))
        if "$" in "".join(p[1] for p in parts if p[0] == "lit"): raise Unsupported("unsupported reference syntax")
        if len(parts) == 1 and parts[0][0] == "var":
            v = self.vars.get(parts[0][1], [])
            if quoted:
                return [("joined", v)]          # one argument: elements joined by ';' (re-splits when stored in a list)
            return list(v)                       # unquoted: one argument per element, none if empty
        if any(p[0] == "var" for p in parts):
            raise Unsupported("mixed literal/reference argument")
        return [StringVal(body)]

def flatten(items):
    out = []
    for it in items:
        if isinstance(it, tuple) and it[0] == "joined": out.extend(it[1])
        else: out.append(it)
    return out
def as_arg(it):
    if isinstance(it, tuple) and it[0] == "joined":
        if len(it[1]) == 1: return it[1][0]
        if len(it[1]) == 0: return StringVal("")
        r = it[1][0]
        for e in it[1][1:]: r = Concat(r, StringVal(";"), e)
        return r
    return it


def interpret_paths(cmds, fname, actual_args, extra_vars, isdir):
    """DFS over symbolic if-conditions: returns list of (path_condition, execute_process calls)"""
    results = []

    def decide(cond, decisions, nd, pc):
        """fork on a symbolic Boolean: replay a recorded decision, or explore the False branch in a sibling run and take True here"""
        if nd < len(decisions):
            take = decisions[nd]
        else:
            run(decisions + [False])
            take = True
            decisions = decisions + [True]
        pc.append(cond if take else Not(cond))
        return take, decisions, nd + 1

    def run(decisions):
        i = next(k for k, (n, a) in enumerate(cmds) if n == "function" and a and a[0][1] == fname)
        params = [a[1] for a in cmds[i][1][1:]]
        env = Env(extra_vars)
        for p, v in zip(params, actual_args): env.vars[p] = [v]
        env.vars["ARGC"] = [StringVal(str(len(actual_args)))]
        env.vars["ARGN"] = list(actual_args[len(params):])
        argc = len(actual_args)
        pc = []; calls = []; nd = 0
        skip = 0          # depth of disabled if-nesting
        stack = []        # per open if: was it taken?
        k = i + 1
        while cmds[k][0] != "endfunction":
            name, args = cmds[k]; k += 1
            if name == "if":
                if skip: skip += 1; continue
                words = [s_ for (t, s_) in args]
                if words[0] == "IS_DIRECTORY" and len(args) == 2:
                    (a_,) = env.expand(*args[1]); cond = isdir(as_arg(a_))
                    take, decisions, nd = decide(cond, decisions, nd, pc)
                elif len(words) == 3 and words[1] == "GREATER" and words[0] == "${ARGC}":
                    take = argc > int(words[2])
                elif len(args) == 3 and words[1] in ("STREQUAL",) and args[0][0] == CMakeParser.Quoted_argument and args[2][0] == CMakeParser.Quoted_argument:
                    (l_,) = env.expand(*args[0]); (r_,) = env.expand(*args[2])
                    lz, rz = as_arg(l_), as_arg(r_)
                    if is_string_value(lz) and is_string_value(rz):
                        take = lz.as_string() == rz.as_string()
                    else:
                        take, decisions, nd = decide(lz == rz, decisions, nd, pc)
                elif len(args) == 1 and args[0][0] != CMakeParser.Quoted_argument and REF.fullmatch(words[0]) is None and not words[0].startswith("$"):
                    # if(<variable>): true iff the variable holds a non-empty list whose value is not a false constant -- here: non-empty
                    v_ = env.vars.get(words[0], [])
                    take = len(v_) > 0
                else: raise Unsupported("if(" + " ".join(words) + ")")
                if take: stack.append(True)
                else: skip = 1
                continue
            if name == "endif":
                if skip: skip -= 1
                else: stack.pop()
                continue
            if name in ("else", "elseif"): raise Unsupported(name)
            if skip: continue
            if name == "set":
                vals = flatten([x for (t, s_) in args[1:] for x in env.expand(t, s_)])
                env.vars[args[0][1]] = [v for v in vals if not (is_string_value(v) and v.as_string() == "")]
            elif name == "list" and args and args[0][1] == "APPEND":
                var = args[1][1]
                env.vars[var] = env.vars.get(var, []) + flatten([x for (t, s_) in args[2:] for x in env.expand(t, s_)])
            elif name == "list" and args and args[0][1] == "PREPEND":
                var = args[1][1]
                env.vars[var] = flatten([x for (t, s_) in args[2:] for x in env.expand(t, s_)]) + env.vars.get(var, [])
            elif name == "list" and args and args[0][1] == "REMOVE_DUPLICATES" and len(args) == 2:
                var = args[1][1]
                keep = []
                for e in env.vars.get(var, []):
                    dup = False
                    for k_ in keep:
                        if is_string_value(e) and is_string_value(k_):
                            same = e.as_string() == k_.as_string()
                        else:
                            same, decisions, nd = decide(e == k_, decisions, nd, pc)
                        if same:
                            dup = True
                            break
                    if not dup:
                        keep.append(e)
                env.vars[var] = keep
            elif name == "return":
                break
            elif name == "file" and args and args[0][1] in ("GLOB", "GLOB_RECURSE") and len(args) >= 2:
                # the file system is environment: the glob result is an arbitrary list -- empty, or some non-empty list
                nonempty, decisions, nd = decide(Bool("glob_%d_nonempty" % nd), decisions, nd, pc)
                env.vars[args[1][1]] = [String("glob_%d_first" % nd)] if nonempty else []
            elif name == "get_filename_component" and len(args) >= 3:
                # get_filename_component(<var> <path> <mode>): an uninterpreted function of the path per mode -- whatever it
                # computes, the result is not known to equal the path as given
                (a_,) = env.expand(*args[1])
                mode = args[2][1]
                fn = Function("get_filename_component_" + mode, StringSort(), StringSort())
                env.vars[args[0][1]] = [fn(as_arg(a_))]
            elif name == "execute_process":
                KW = {"COMMAND", "OUTPUT_VARIABLE", "ERROR_VARIABLE", "RESULT_VARIABLE", "COMMAND_ERROR_IS_FATAL", "WORKING_DIRECTORY"}
                opts = {}; cmd = []; mode = None
                for (t, s_) in args:
                    if t != CMakeParser.Quoted_argument and s_ in KW: mode = s_; opts.setdefault(s_, []); continue
                    if mode == "COMMAND": cmd.extend(as_arg(x) for x in env.expand(t, s_))
                    elif mode is None: raise Unsupported("execute_process argument before keyword")
                    else: opts[mode].append(s_)
                calls.append((cmd, opts))
            else: raise Unsupported("command " + name)
        results.append((And(*pc) if pc else BoolVal(True), calls))
    run([])
    return results


# ------------------------------------------------------------------------------------------------ obligations
import json, os, subprocess, shutil, time
import vf

CMAKE_FILE = os.path.join(vf.REPO, "cmake", "cminx.cmake")


def spec_ok(call, exe, inp, outp, extra, isdir):
    """spec_argv: argv = executable, then -- as a multiset of argparse items, argparse being order-insensitive between
    optionals -- the positional input, the pair -o output, -r iff directory, the extra arguments as one contiguous
    order-preserving block; and the call is fatal on error."""
    cmd, opts = call
    if opts.get("COMMAND_ERROR_IS_FATAL") != ["ANY"]:
        return BoolVal(False)
    n = len(cmd)
    k = len(extra)
    alts = []
    # enumerate the placements of the items (shapes are concrete: list lengths are concrete per run)
    def layouts(with_r):
        items = [("pos",), ("o",), ("extra",)] + ([("r",)] if with_r else [])
        import itertools
        for perm in itertools.permutations(items):
            seq = []
            for it in perm:
                if it == ("pos",): seq.append(inp)
                elif it == ("o",): seq += [StringVal("-o"), outp]
                elif it == ("r",): seq.append(StringVal("-r"))
                else: seq += list(extra)
            yield seq
    def eq(a, b):
        return BoolVal(False) if len(a) != len(b) else And(*[x == y for x, y in zip(a, b)]) if a else BoolVal(True)
    if n == 0:
        return BoolVal(False)
    with_r = Or(*[And(cmd[0] == exe, eq(cmd[1:], seq)) for seq in layouts(True)])
    without_r = Or(*[And(cmd[0] == exe, eq(cmd[1:], seq)) for seq in layouts(False)])
    return If(isdir, with_r, without_r)


def ob_argv(pid, label="C19.a"):
    def fn(work):
        t0 = time.time()
        cmds = commands(CMAKE_FILE)
        inp, outp, exe = Strings("input output exe")
        isdir_f = Function("IS_DIRECTORY", StringSort(), BoolSort())
        nq = 0
        samples = []
        nval = 0
        for k in range(0, 4):
            extra = [String("x%d" % j) for j in range(k)]
            paths = interpret_paths(cmds, "cminx_gen_rst", [inp, outp] + extra, {"CMINX_EXECUTABLE": [exe]}, lambda x: isdir_f(x))
            d = isdir_f(inp)
            bad = []
            for (pc, calls) in paths:
                ok = spec_ok(calls[0], exe, inp, outp, extra, d) if len(calls) == 1 else BoolVal(False)
                bad.append(And(pc, Not(ok)))
            s = Solver()
            s.set("timeout", 60000)
            s.add(Or(*bad))
            # the quantifier's extra arguments are ordinary flags and values: non-empty, no ';' (CMake list separator);
            # they do not look like the function's own flags
            for x in extra:
                s.add(Length(x) > 0, Not(Contains(x, ";")))
            s.add(Length(inp) > 0, Length(outp) > 0, Length(exe) > 0, Not(Contains(inp, ";")), Not(Contains(outp, ";")), Not(Contains(exe, ";")))
            r = s.check(); nq += 1
            if str(r) == "sat":
                m = s.model()
                import rx
                vals = {str(v): rx.decode_z3_string(m.eval(v, model_completion=True)) for v in [inp, outp, exe] + extra}
                isd = is_true(m.eval(d, model_completion=True))
                ok, why = replay_cmake(work, vals, isd, k)
                rep = os.path.join(vf.ROOT, "replays", pid, "argv_k%d.json" % k)
                os.makedirs(os.path.dirname(rep), exist_ok=True)
                json.dump({"property": pid, "obligation": label, "model": vals, "input_is_directory": isd, "replay": why}, open(rep, "w"), indent=1)
                if ok:
                    return dict(verdict=vf.VIOLATION, replay=rep, paths=nq, detail="|ARGN|=%d model %s dir=%s: %s" % (k, vals, isd, why))
                return dict(verdict=vf.HARNESS_ERROR, paths=nq, detail="model did not reproduce under real cmake -P: %s %s" % (vals, why))
            if str(r) != "unsat":
                return dict(verdict=vf.INCONCLUSIVE, paths=nq, detail="z3: %s for |ARGN|=%d" % (r, k))
            samples.append({"extra_args": k, "interpreted_paths": len(paths)})
            # translator validation: the model's argv for concrete values == what real cmake passes to the executable
            okv, whyv = validate_cmake(work, k)
            if not okv:
                return dict(verdict=vf.HARNESS_ERROR, paths=nq, detail="interpreter disagrees with real cmake: " + whyv)
            nval += 2
        return dict(verdict=vf.HOLDS, paths=nq, samples=samples, validated=nval, cpu_s=time.time() - t0,
                    detail="argv == spec_argv and COMMAND_ERROR_IS_FATAL ANY on every interpreted path, 0..3 extra arguments")
    return vf.FN("%s cminx_gen_rst: argv of the cminx process == spec_argv; failure is fatal" % label, fn,
                 engine="E3: symbolic interpretation of the CMake function body -> z3 string terms; negated spec -> unsat",
                 encodes=["cmake/cminx.cmake: cminx_gen_rst (parsed from the working tree at run time)"],
                 symbolic="input, output, executable, up to 3 extra arguments (strings), IS_DIRECTORY(input)", bound="|ARGN| <= 3; arguments non-empty and free of ';'")


_RECORDER = """#!/bin/sh
for a in "$@"; do printf '%s\n' "$a"; done > "$CMINX_ARGV_OUT"
exit ${CMINX_FAKE_RC:-0}
"""


def run_cmake(work, inp, outp, extra, rc=0):
    """real cmake -P with CMINX_EXECUTABLE bound to an argv recorder -> (argv list or None, cmake exit code)"""
    d = os.path.join(work, "cmk")
    os.makedirs(d, exist_ok=True)
    rec = os.path.join(d, "recorder.sh")
    open(rec, "w").write(_RECORDER)
    os.chmod(rec, 0o755)
    out = os.path.join(d, "argv.txt")
    if os.path.exists(out):
        os.remove(out)
    q = lambda s: '"' + s.replace("\\", "\\\\").replace('"', '\\"').replace("$", "\\$") + '"'
    script = os.path.join(d, "run.cmake")
    open(script, "w").write('set(CMINX_EXECUTABLE %s)\ninclude(%s)\ncminx_gen_rst(%s)\n' % (q(rec), q(CMAKE_FILE), " ".join(q(a) for a in [inp, outp] + list(extra))))
    env = dict(os.environ, CMINX_ARGV_OUT=out, CMINX_FAKE_RC=str(rc))
    p = subprocess.run(["cmake", "-P", script], env=env, capture_output=True, text=True, timeout=60)
    argv = open(out).read().split("\n")[:-1] if os.path.exists(out) else None
    return argv, p.returncode


def spec_concrete(argv, inp, outp, extra, isdir):
    if argv is None:
        return False
    rest = list(argv)
    def remove_block(block):
        for i in range(len(rest) - len(block) + 1):
            if rest[i:i + len(block)] == block:
                del rest[i:i + len(block)]
                return True
        return False
    ok = remove_block(list(extra)) if extra else True
    ok = ok and remove_block(["-o", outp]) and remove_block([inp])
    if isdir:
        ok = ok and remove_block(["-r"])
    return ok and rest == []


def validate_cmake(work, k):
    if shutil.which("cmake") is None:
        return True, "cmake not installed: validation skipped"
    d = os.path.join(work, "cmk_in")
    os.makedirs(d, exist_ok=True)
    f = os.path.join(d, "one.cmake")
    open(f, "w").write("")
    extra = ["-p", "pre", "-e"][:k]
    for (inp, isdir) in ((d, True), (f, False)):
        argv, rc = run_cmake(work, inp, os.path.join(work, "cmk_out"), extra)
        if rc != 0 or not spec_concrete(argv, inp, os.path.join(work, "cmk_out"), extra, isdir):
            return False, "cmake -P: rc=%s argv=%r for input %r extra %r" % (rc, argv, inp, extra)
    # failure propagation: the child fails => cmake fails
    argv, rc = run_cmake(work, d, os.path.join(work, "cmk_out"), extra, rc=3)
    if rc == 0:
        return False, "child exit status 3 did not make cmake -P fail"
    return True, ""


def replay_cmake(work, vals, isd, k):
    if shutil.which("cmake") is None:
        return True, "cmake not installed: model accepted without replay"
    base = os.path.join(work, "cmk_replay")
    shutil.rmtree(base, ignore_errors=True)
    os.makedirs(base)
    # the input is reached through a symbolic link (an ordinary situation: versioned directories, build trees), so that a
    # change which resolves / rewrites the path before forwarding it shows up under the real cmake too
    real = os.path.join(base, "real_in")
    inp = os.path.join(base, "in")
    if isd:
        os.makedirs(real)
    else:
        open(real, "w").write("")
    os.symlink(real, inp)
    extra = [vals["x%d" % j] for j in range(k)]
    argv, rc = run_cmake(work, inp, vals["output"], extra)
    good = spec_concrete(argv, inp, vals["output"], extra, isd)
    return (not good), "real cmake passed argv %r (rc %s)" % (argv, rc)
