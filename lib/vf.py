"""Verification framework core: obligations, engines' runners, verdicts, evidence.

Runs under /verif/.venv/bin/python (overlay of /venv + crosshair-tool + z3-solver).
Verdict vocabulary (DESIGN.md section 0):
  HOLDS         CrossHair "Confirmed over all paths" / z3 unsat            (inside the stated bound)
  VIOLATION     solver counterexample that reproduced concretely on the real code
  KNOWN         as VIOLATION, but listed in known_findings.json (status "known")
  INCONCLUSIVE  timeout / unknown / not confirmed
  HARNESS_ERROR counterexample that does not reproduce, vacuous harness, unsupported construct
"""
import ast
import concurrent.futures as cf
import json
import os
import re
import shutil
import subprocess
import sys
import time

ROOT = os.path.dirname(os.path.dirname(os.path.abspath(__file__)))
LIB = os.path.join(ROOT, "lib")
HARNESS = os.path.join(ROOT, "harness")
PY = os.path.join(ROOT, ".venv", "bin", "python")
REPO = os.environ.get("VERIF_REPO", "/repo")     # development aid: evaluate a scratch worktree (seeded changes) without touching /repo
NCPU = int(os.environ.get("VERIF_JOBS", "16"))
SEED = int(os.environ.get("VERIF_SEED", "0") or 0)

HOLDS, VIOLATION, KNOWN, INCONCLUSIVE, HARNESS_ERROR = "HOLDS", "VIOLATION", "KNOWN", "INCONCLUSIVE", "HARNESS_ERROR"


def workdir(pid):
    d = os.path.join(ROOT, ".work", pid)
    shutil.rmtree(d, ignore_errors=True)
    os.makedirs(d, exist_ok=True)
    return d


class Result:
    def __init__(self, name, verdict, detail="", **kw):
        self.name, self.verdict, self.detail = name, verdict, detail
        self.paths = kw.get("paths", 0)          # symbolic paths completed (CrossHair) / solver queries (z3)
        self.cpu_s = kw.get("cpu_s", 0.0)
        self.samples = kw.get("samples", [])
        self.replay = kw.get("replay")           # path of the replay file for a violation
        self.validated = kw.get("validated", 0)  # translator-validation traces compared with the implementation
        self.meta = kw.get("meta", {})

    def as_dict(self):
        d = {"name": self.name, "verdict": self.verdict, "paths_or_queries": self.paths, "cpu_s": round(self.cpu_s, 2)}
        if self.detail: d["detail"] = self.detail[:600]
        d.update(self.meta)
        return d


# --------------------------------------------------------------------------------------------- CrossHair obligations
class CH:
    """One CrossHair obligation: a harness template instantiated with shard constants.

    template : file name under /verif/harness; must define `check(...)` with a PEP316 docstring ending in `post: _`
    consts   : dict NAME -> python value, substituted for @@NAME@@ by repr()
    """
    engine = "crosshair"

    def __init__(self, name, template, consts=None, timeout=60, encodes=(), symbolic="", bound="", unblock=(),
                 twin=True, env=None, finding=None, cli_replay=True):
        self.name, self.template, self.consts = name, template, dict(consts or {})
        self.timeout, self.encodes, self.symbolic, self.bound = timeout, list(encodes), symbolic, bound
        self.unblock, self.twin, self.env = list(unblock), twin, dict(env or {})
        self.finding = finding      # id of the known-finding this obligation is *expected* to re-confirm (concrete obligations)
        self.cli_replay = cli_replay

    def describe(self):
        return {"name": self.name, "engine": "CrossHair 0.0.110 + z3 (symbolic execution of the real functions)",
                "harness": self.template, "shard_constants": {k: (v if len(repr(v)) < 120 else repr(v)[:117] + "...") for k, v in self.consts.items()},
                "real_functions_encoded": self.encodes, "symbolic": self.symbolic, "bound": self.bound,
                "per_condition_timeout_s": self.timeout}


def instantiate(template, consts, dest, twin=False):
    src = open(os.path.join(HARNESS, template), encoding="utf-8").read()
    for k, v in consts.items():
        src = src.replace("@@" + k + "@@", repr(v))
        src = src.replace("$$" + k + "$$", str(v))          # raw substitution (type annotations)
    if "$$CPS$$" in src:                                     # Tuple[int, ...] of NCP symbolic code points
        src = src.replace("$$CPS$$", "Tuple[" + ", ".join(["int"] * max(1, int(consts["NCP"]))) + "]")
    left = re.findall(r"@@[A-Z_0-9]+@@", src)
    if left:
        raise RuntimeError(f"{template}: unsubstituted placeholders {sorted(set(left))}")
    if twin:
        if "    post: _\n" not in src:
            raise RuntimeError(f"{template}: no `post: _` line for the vacuity twin")
        src = src.replace("    post: _\n", "    post: not _\n")
    with open(dest, "w", encoding="utf-8") as f:
        f.write(src)


def _env(work, extra=None, **kw):
    e = dict(os.environ)
    e["PYTHONPATH"] = os.path.join(REPO, "src") + os.pathsep + LIB + os.pathsep + HARNESS + os.pathsep + work
    e["PYTHONHASHSEED"] = "0"
    e["PYTHONWARNINGS"] = "ignore"
    e["XDG_CONFIG_HOME"] = os.path.join(work, "xdg")
    e["HOME"] = os.path.join(work, "home")
    e.update(extra or {})
    e.update({k: str(v) for k, v in kw.items()})
    return e


def _crosshair(modfile, timeout, work, env, unblock):
    cmd = [PY, "-m", "crosshair", "check", modfile, "--report_all", "--analysis_kind", "PEP316",
           "--per_condition_timeout", str(timeout), "--per_path_timeout", str(max(10, timeout / 2)),
           "--extra_plugin", os.path.join(LIB, "plug.py")]
    if unblock:
        cmd += ["--unblock"] + list(unblock)
    t = time.time()
    try:
        p = subprocess.run(cmd, cwd=work, env=env, capture_output=True, text=True, timeout=timeout * 3 + 120)
        out, rc = p.stdout + p.stderr, p.returncode
    except subprocess.TimeoutExpired as ex:
        out, rc = "WALL TIMEOUT " + str(ex), -9
    return rc, out, time.time() - t


def _count(path):
    try:
        return os.path.getsize(path)
    except OSError:
        return 0


def run_ch(ob, work, pid):
    """Run one CrossHair obligation (+ vacuity twin + concrete replay of a counterexample)."""
    import hashlib
    base = re.sub(r"[^A-Za-z0-9_]+", "_", ob.name)[:80] + "_" + hashlib.md5(ob.name.encode()).hexdigest()[:8]
    mod = os.path.join(work, f"h_{base}.py")
    try:
        instantiate(ob.template, ob.consts, mod)
    except Exception as ex:
        return Result(ob.name, HARNESS_ERROR, f"instantiate: {ex}")
    cex = os.path.join(work, f"h_{base}.cex")
    cnt = os.path.join(work, f"h_{base}.cnt")
    smp = os.path.join(work, f"h_{base}.smp")
    env = _env(work, ob.env, VF_CEX_FILE=cex, VF_COUNT_FILE=cnt, VF_SAMPLE_FILE=smp)
    own = ["open:" + f for f in (cex, cnt, smp)]     # the harness's own accounting files; every other side effect stays blocked
    rc, out, wall = _crosshair(mod, ob.timeout, work, env, ob.unblock + own)
    paths = _count(cnt)
    samples = []
    try:
        samples = [l.rstrip("\n") for l in open(smp, encoding="utf-8")][:3]
    except OSError:
        pass
    meta = {"wall_s": round(wall, 1)}
    kw = dict(paths=paths, cpu_s=wall, samples=samples, meta=meta)
    msgs = [l for l in out.splitlines() if re.search(r"^\S+:\d+: (error|info|warning): ", l)]
    confirmed = any("Confirmed over all paths" in l for l in msgs)
    errors = [l for l in msgs if ": error: " in l]
    if errors or rc == 1:
        # counterexample claimed -> replay concretely on the real code, outside CrossHair
        if not os.path.exists(cex):
            # CrossHair found an exception / failure outside report(): try to recover args from the message
            return Result(ob.name, HARNESS_ERROR, "counterexample without dumped arguments: " + " | ".join(errors)[:400], **kw)
        rep_dir = os.path.join(ROOT, "replays", pid)
        os.makedirs(rep_dir, exist_ok=True)
        rep = os.path.join(rep_dir, base + ".json")
        args = ast.literal_eval(open(cex, encoding="utf-8").read())
        json.dump({"property": pid, "obligation": ob.name, "template": ob.template, "consts": ob.consts, "args": args,
                   "crosshair": errors[:2]}, open(rep, "w"), indent=1, default=repr)
        ok, why = replay(rep, work)
        kw["replay"] = rep
        kw["samples"] = [repr(args)[:400]] + samples[:2]
        if ok:
            return Result(ob.name, VIOLATION, f"counterexample {args!r} reproduced concretely: {why}", **kw)
        return Result(ob.name, HARNESS_ERROR, f"counterexample {args!r} did NOT reproduce concretely ({why}): encoding/stub problem", **kw)
    if rc not in (0,) and not confirmed:
        return Result(ob.name, HARNESS_ERROR if rc == 2 else INCONCLUSIVE, f"crosshair rc={rc}: " + out[-600:], **kw)
    if not confirmed:
        why = "; ".join(l.split(": ", 2)[-1] for l in msgs) or out[-300:]
        return Result(ob.name, INCONCLUSIVE, "not confirmed: " + why, **kw)
    if paths == 0:
        return Result(ob.name, HARNESS_ERROR, "confirmed but no path reached the assertion (vacuous)", **kw)
    if ob.twin:
        tmod = os.path.join(work, f"t_{base}.py")
        instantiate(ob.template, ob.consts, tmod, twin=True)
        tenv = _env(work, ob.env, VF_CEX_FILE=cex + ".twin", VF_COUNT_FILE=cnt + ".twin", VF_SAMPLE_FILE=smp + ".twin", VF_TWIN="1")
        trc, tout, twall = _crosshair(tmod, min(ob.timeout, 60), work, tenv, ob.unblock + [u + ".twin" for u in own])
        kw["cpu_s"] += twall
        meta["twin"] = "violated (assertion reachable)" if trc == 1 else f"rc={trc}"
        try:      # the twin's witness (a realised input that reaches the assertion and satisfies it) is the sample for the evidence
            kw["samples"] = [open(cex + ".twin", encoding="utf-8").read()[:400]]
        except OSError:
            pass
        if trc != 1:
            # Reachability is already witnessed by the completion counter (paths > 0: that many feasible paths reached the
            # assertion). A twin that is not violated is therefore a contradiction only if it exhausted the tree; a twin that
            # timed out (a loaded machine) is recorded, not fatal.
            if "Confirmed over all paths" in tout:
                return Result(ob.name, HARNESS_ERROR, "vacuity twin confirmed 'never true' although paths completed: " + tout[-300:], **kw)
            meta["twin"] = "inconclusive (timeout); reachability witnessed by %d completed paths" % paths
    return Result(ob.name, HOLDS, "Confirmed over all paths", **kw)


def replay(rep, work=None):
    """Concrete replay of a dumped counterexample against the real code (no CrossHair). -> (reproduced?, text)"""
    d = json.load(open(rep))
    work = work or workdir("replay")
    mod = os.path.join(work, "replay_mod.py")
    instantiate(d["template"], d["consts"], mod)
    code = ("import sys, json, ast; sys.setrecursionlimit(20000); import replay_mod as m\n"
            "d = json.load(open(sys.argv[1])); args = d['args']\n"
            "try:\n    r = m.check(**args)\n    print('REPLAY-RESULT', bool(r))\n"
            "except BaseException as ex:\n    print('REPLAY-RESULT', 'EXC', type(ex).__name__, str(ex)[:200])\n")
    env = _env(work, None, VF_REPLAY="1")
    p = subprocess.run([PY, "-c", code, rep], cwd=work, env=env, capture_output=True, text=True, timeout=600)
    line = [l for l in p.stdout.splitlines() if l.startswith("REPLAY-RESULT")]
    if not line:
        return False, "replay crashed: " + (p.stderr or p.stdout)[-300:]
    toks = line[-1].split(None, 2)
    if toks[1] == "True":
        return False, "harness returned True on the concrete values"
    if toks[1] == "EXC" and len(toks) > 2 and toks[2].startswith("TypeError check()"):
        return False, "replay could not call the harness: " + toks[2]
    return True, line[-1][len("REPLAY-RESULT "):]


# --------------------------------------------------------------------------------------------- in-process obligations (z3 / concrete)
class FN:
    """Obligation decided by a python callable (z3 queries built from the repo's data, or a concrete confirmation).

    fn(work) -> Result-kwargs dict: verdict, detail, paths(=queries), cpu_s, samples, validated, replay
    """

    def __init__(self, name, fn, engine="z3", encodes=(), symbolic="", bound="", finding=None):
        self.name, self.fn, self.engine = name, fn, engine
        self.encodes, self.symbolic, self.bound, self.finding = list(encodes), symbolic, bound, finding

    def describe(self):
        return {"name": self.name, "engine": self.engine, "real_functions_encoded": self.encodes,
                "symbolic": self.symbolic, "bound": self.bound}


def run_fn(ob, work, pid):
    t = time.time()
    try:
        r = ob.fn(work)
    except Exception as ex:      # translator met an unsupported construct, etc.
        import traceback
        return Result(ob.name, HARNESS_ERROR, f"{type(ex).__name__}: {ex}\n" + traceback.format_exc()[-800:], cpu_s=time.time() - t)
    r.setdefault("cpu_s", time.time() - t)
    v = r.pop("verdict")
    d = r.pop("detail", "")
    return Result(ob.name, v, d, **r)


def _run_one(args):
    ob, work, pid = args
    try:
        if isinstance(ob, CH):
            return run_ch(ob, work, pid)
        return run_fn(ob, work, pid)
    except Exception as ex:          # never let one obligation take the whole check down
        import traceback
        return Result(ob.name, HARNESS_ERROR, "runner: %s: %s\n%s" % (type(ex).__name__, ex, traceback.format_exc()[-600:]))


# --------------------------------------------------------------------------------------------- tool-soundness lint
KNOWN_WRONG_MODELS = {}      # str.expandtabs was one (column-unaware model); lib/plug.py now replaces that model by realisation
VALIDATED_STR_METHODS = {"split", "lstrip", "rstrip", "strip", "startswith", "endswith", "lower", "upper", "replace", "join",
                         "splitlines", "format", "append", "extend", "remove", "pop", "insert", "get", "items", "keys", "values",
                         "copy", "deepcopy", "index", "count", "encode", "decode", "write", "read", "close"}


def lint_models():
    """The real code may only rely on str methods whose CrossHair model was differentially probed against CPython
    (DESIGN.md 11.6). A call of a method with a KNOWN wrong model makes every 'Confirmed' of the symbolic-execution engine
    unreliable for code that reaches it: such verdicts are downgraded to INCONCLUSIVE."""
    import glob
    bad = []
    for f in sorted(glob.glob(os.path.join(REPO, "src", "cminx", "*.py"))):
        try:
            tree = ast.parse(open(f, encoding="utf-8").read())
        except (OSError, SyntaxError):
            continue
        for n in ast.walk(tree):
            if isinstance(n, ast.Call) and isinstance(n.func, ast.Attribute) and n.func.attr in KNOWN_WRONG_MODELS:
                bad.append("%s:%d .%s(): %s" % (os.path.relpath(f, REPO), n.lineno, n.func.attr, KNOWN_WRONG_MODELS[n.func.attr]))
    return bad


# --------------------------------------------------------------------------------------------- known findings
def load_findings(pid):
    p = os.path.join(ROOT, "known_findings.json")
    if not os.path.exists(p):
        return []
    return [f for f in json.load(open(p))["findings"] if f["property"] == pid]


def _repo_state():
    try:
        head = subprocess.run(["git", "-C", REPO, "rev-parse", "--short", "HEAD"], capture_output=True, text=True, timeout=20).stdout.strip()
        dirty = subprocess.run(["git", "-C", REPO, "status", "--porcelain", "--", "src", "cmake"], capture_output=True, text=True, timeout=20).stdout.strip()
        return {"path": REPO, "head": head, "working_tree_modified": bool(dirty),
                "note": "the encodings and harnesses are regenerated from this working tree on every run"}
    except Exception as ex:
        return {"path": REPO, "error": str(ex)}


# --------------------------------------------------------------------------------------------- driver
def main(pid, tier, obligations, assumptions, explanation, level="other", trusted=(), outside=()):
    """Run all obligations of one property, print verdict lines, write evidence, return exit code."""
    t0 = time.time()
    work = workdir("%s-%d" % (pid, os.getpid()))      # per invocation: concurrent runs of the same check do not disturb each other
    results = []
    fns = [o for o in obligations if isinstance(o, FN)]
    chs = [o for o in obligations if isinstance(o, CH)]
    with cf.ThreadPoolExecutor(max_workers=NCPU) as ex:
        futs = {ex.submit(_run_one, (o, work, pid)): o for o in chs}
        # z3/concrete obligations run in this process (z3 contexts are not thread-safe): sequentially, while CrossHair runs
        for o in fns:
            results.append((o, run_fn(o, work, pid)))
        for f in cf.as_completed(futs):
            results.append((futs[f], f.result()))
    order = {id(o): i for i, o in enumerate(obligations)}
    results.sort(key=lambda x: order[id(x[0])])
    unsound = lint_models()
    if unsound:
        for ob, r in results:
            if isinstance(ob, CH) and r.verdict == HOLDS:
                r.verdict = INCONCLUSIVE
                r.detail = "CrossHair confirmed, but the verdict is not trusted: " + unsound[0]
    findings = load_findings(pid)
    known = {f["id"]: f for f in findings if f.get("status") == "known"}
    nviol = 0; nerr = 0; ninc = 0; nheld = 0
    lines = []
    for ob, r in results:
        if r.verdict == VIOLATION and ob.finding and ob.finding in known:
            r.verdict = KNOWN
            lines.append(f"KNOWN-FINDING: property={pid} {known[ob.finding]['what']}")
        elif r.verdict == VIOLATION:
            nviol += 1
            lines.append(f"VIOLATION property={pid} replay={r.replay or 'n/a'}")
            lines.append(f"  obligation={r.name}: {r.detail[:500]}")
        elif r.verdict == HARNESS_ERROR:
            nerr += 1
            lines.append(f"HARNESS-ERROR obligation={r.name}: {r.detail[:800]}")
        elif r.verdict == INCONCLUSIVE:
            ninc += 1
            lines.append(f"INCONCLUSIVE obligation={r.name}: {r.detail[:300]}")
        else:
            nheld += 1
    # a finding listed as known whose confirming obligation no longer fails: say so (it never suppresses anything else)
    for ob, r in results:
        if ob.finding and ob.finding in known and r.verdict == HOLDS:
            lines.append(f"NOTE: known finding {ob.finding} no longer reproduces on this tree (obligation {r.name} holds)")
    wall = time.time() - t0
    total_paths = sum(r.paths for _, r in results)
    samples = []
    for ob, r in results:
        for s in r.samples[:2]:
            samples.append({"obligation": r.name, "case": s})
    ev = {
        "property_id": pid, "tier": tier, "seed": SEED, "level": level,
        "coverage": {
            "explanation": explanation,
            "obligations": len(results), "discharged": nheld + sum(1 for _, r in results if r.verdict == KNOWN),
            "inconclusive": ninc, "harness_errors": nerr,
            "evaluations": max(total_paths, 1),
            "rule": "evaluations = symbolic execution paths completed by CrossHair (each decided by z3 for every value of the symbolic "
                    "inputs on that path) plus SMT queries discharged by z3 directly; an obligation is discharged only by "
                    "'Confirmed over all paths' (path tree exhausted) or 'unsat'",
            "traces_validated_against_impl": sum(r.validated for _, r in results),
            "samples": samples[:24] or [{"note": "no samples recorded"}],
            "obligation_detail": [dict(ob.describe(), **r.as_dict()) for ob, r in results],
            "checker_cmd": f"./check {pid} --tier {tier}",
            "code_under_check": _repo_state(),
            "trusted_base": list(trusted),
            "outside_the_claim": list(outside),
            "solver_wall_s_total": round(sum(r.cpu_s for _, r in results), 1),
        },
        "assumptions": list(assumptions),
        "wall_s": round(wall, 2),
        "violations": nviol,
    }
    os.makedirs(os.path.join(ROOT, "evidence"), exist_ok=True)
    with open(os.path.join(ROOT, "evidence", pid + ".json"), "w") as f:
        json.dump(ev, f, indent=1, default=repr)
    for l in lines:
        print(l)
    print(f"{pid} [{tier}]: {len(results)} obligations: {nheld} hold, {nviol} violated, "
          f"{sum(1 for _, r in results if r.verdict == KNOWN)} known findings, {ninc} inconclusive, {nerr} harness errors; "
          f"{total_paths} paths/queries; {wall:.0f}s wall")
    if not os.environ.get("VERIF_KEEP_WORK"):
        shutil.rmtree(work, ignore_errors=True)
    if nviol:
        return 1
    if nerr:
        return 2
    return 0
