"""C07.b: validation of the oracle's nesting lemma with the real docutils (NOT a solver verdict).

C07.a shows (symbolically) that every rendered entry equals spec_render, whose nesting is evident by construction. The step from
that layout to "docutils parses it cleanly with this tree shape" is validated here on concrete instances: every entry kind x every
ordered pair of doc-line shapes (49), pieces instantiated with benign words, rendered by the REAL code and parsed by docutils with
the Sphinx directives registered as plain containers. A disagreement means spec_render encodes the wrong lemma."""
import time

import vf

SHAPES = ["{}", "", ":f: {}", "* {}", "   {}", ".. x:: {}", "{}::"]


def _register():
    from docutils import nodes
    from docutils.parsers.rst import Directive, directives, roles

    class Box(nodes.General, nodes.Element):
        pass

    class Container(Directive):
        has_content = True
        optional_arguments = 1
        final_argument_whitespace = True
        option_spec = {"value": directives.unchanged, "maxdepth": directives.unchanged}

        def run(self):
            n = Box()
            n["dname"] = self.name
            n["arg"] = " ".join(self.arguments)
            self.state.nested_parse(self.content, self.content_offset, n)
            return [n]
    for d in ("module", "function", "data", "py:class", "py:method", "py:attribute", "x", "toctree"):
        directives.register_directive(d, Container)

    def role(name, rawtext, text, lineno, inliner, options={}, content=[]):
        return [nodes.literal(rawtext, text)], []
    for r in ("class", "code"):
        roles.register_local_role(r, role)
    return Box


def parse(text):
    import docutils.frontend, docutils.parsers.rst, docutils.utils
    parser = docutils.parsers.rst.Parser()
    settings = docutils.frontend.OptionParser(components=(docutils.parsers.rst.Parser,)).get_default_values()
    settings.report_level = 5
    settings.halt_level = 5
    doc = docutils.utils.new_document("page.rst", settings)
    parser.parse(text, doc)
    return doc


def entries():
    import cminx.documentation_types as dt
    M = lambda n, macro: dt.MethodDocumentation(n, "method doc\n", "K", ["int", "args"], ["aa"], False, macro)
    def mk(doc):
        return [
            ("function", dt.FunctionDocumentation("fn", doc, ["aa", "bb"], True)),
            ("macro", dt.MacroDocumentation("mc", doc, ["aa"], False)),
            ("variable", dt.VariableDocumentation("VAR", doc, dt.VarType.STRING, "value")),
            ("unset", dt.VariableDocumentation("VAR", doc, dt.VarType.UNSET, None)),
            ("option", dt.OptionDocumentation("OPT", doc, "bool", None, "help text")),
            ("generic", dt.GenericCommandDocumentation("cmd", doc, ["aa", "(bb cc)"])),
            ("ctest", dt.CTestDocumentation("ct", doc, ["COMMAND", "aa"])),
            ("test", dt.TestDocumentation("tt", doc, True)),
            ("section", dt.SectionDocumentation("ss", doc, False)),
            ("class", dt.ClassDocumentation("K", doc, ["B1", "B2"], [dt.ClassDocumentation("I1", "", [], [], [], [], []), dt.ClassDocumentation("I2", "", [], [], [], [], [])],
                                            [M("ctor", False)], [M("m1", True), M("m2", False)],
                                            [dt.AttributeDocumentation("a1", "attr doc\n", "K", "dv"), dt.AttributeDocumentation("a2", "attr doc\n", "K", None)])),
        ]
    return mk


def ob_docutils(pid="C07", label="C07.b"):
    def fn(work):
        from docutils import nodes
        from cminx.documenter import Documenter
        from cminx.rstwriter import RSTWriter
        from cminx.config import Settings
        import cminx.documenter as D
        from antlr4 import InputStream
        t0 = time.time()
        Box = _register()
        old = D.FileStream
        D.FileStream = lambda f, *a, **k: InputStream("")
        n = 0
        problems = []
        samples = []
        try:
            mk = entries()
            for i, s1 in enumerate(SHAPES):
                for j, s2 in enumerate(SHAPES):
                    doc = s1.format("alpha") + "\n" + s2.format("beta") + "\n"
                    for kind, e in mk(doc):
                        dcm = Documenter("x.cmake", "Title", "mod", Settings())
                        dcm.process_docs([e])
                        text = dcm.writer.to_text()
                        tree = parse(text)
                        n += 1
                        msgs = [m for m in tree.traverse(nodes.system_message) if m["level"] >= 3]
                        top = [c for c in tree.children if not isinstance(c, nodes.system_message)]
                        # one title (docutils turns the single top section into the document/section title) ...
                        sec = top[0] if len(top) == 1 and isinstance(top[0], nodes.section) else None
                        body = [c for c in (sec.children if sec is not None else top) if not isinstance(c, (nodes.title, nodes.system_message))]
                        ok = not msgs and sec is not None and isinstance(sec.children[0], nodes.title)
                        # ... then one module directive, then the entry as its sibling; everything else nested inside the entry
                        ok = ok and len(body) == 2 and all(isinstance(b, Box) for b in body) and body[0]["dname"] == "module"
                        if ok:
                            ent = body[1]
                            ok = ent["dname"] in ("function", "data", "py:class")
                            inner = [c for c in ent.traverse(Box) if c is not ent]
                            # notes/warnings are docutils admonitions; methods/attributes/nested directives are Boxes inside the entry
                            if kind == "class":
                                ok = ok and sorted(c["dname"] for c in inner if c["dname"].startswith("py:")) == ["py:attribute", "py:attribute", "py:method", "py:method", "py:method"]
                                ok = ok and len(list(ent.traverse(nodes.bullet_list))) >= 1
                        if not ok:
                            problems.append("%s with doc shapes (%d,%d): %s" % (kind, i, j, [m.astext()[:80] for m in msgs] or "unexpected tree shape"))
                        if len(samples) < 2:
                            samples.append({"kind": kind, "doc": doc, "docutils_top_level": [type(b).__name__ + ":" + (b.get("dname", "") if isinstance(b, Box) else "") for b in body]})
        finally:
            D.FileStream = old
        if problems:
            return dict(verdict=vf.HARNESS_ERROR, detail="spec_render's nesting lemma is not accepted by docutils for: " + "; ".join(problems[:4]), paths=n, validated=n)
        return dict(verdict=vf.HOLDS, detail="%d pages (10 entry kinds x 49 ordered doc-shape pairs) parse without error-level messages into title / module / entry siblings" % n,
                    paths=n, validated=n, samples=samples, cpu_s=time.time() - t0)
    return vf.FN("%s oracle validation: the layout C07.a proves is parsed by the real docutils into one title, one module directive, entries as siblings" % label, fn,
                 engine="concrete validation of the specification renderer's nesting lemma with docutils (supports C07.a; not a solver verdict)",
                 encodes=["cminx.documenter.Documenter.process_docs", "cminx.documentation_types.*.process", "cminx.rstwriter"], symbolic="-",
                 bound="10 entry kinds x 49 ordered pairs of doc-line shapes, benign words")
