"""Per-property texts for evidence files and MANIFEST.json: what is decided, how, under which assumptions, what is outside."""

TRUSTED_CH = ["CrossHair 0.0.110's model of Python 3.12 str/list/dict/int and its path exploration ('Confirmed over all paths' = path tree exhausted)",
              "z3 5.1.0", "lib/plug.py: format(o, '') == str(o) for objects with the default object.__format__ (Python's definition)",
              "hc.ReShimReal: re.sub('', '', s) == s"]
TRUSTED_E2 = ["antlr4 4.7.2 Python runtime implements the ATN's language with longest-match/rule-order lexing and reports every mismatch to the "
              "error listeners (validated on every run against the regex model, not proved)", "z3 5.1.0 sequence/regex theory",
              "my reading of cmake-language(7) as regular expressions (lib/e2.py: Reference)"]
STEP_ASSUME = ["well-formedness = the properties' quantifier: block closers only with a matching open block; a member/test declaration is immediately "
               "followed by its implementing definition (which may carry a doccomment of its own); member commands only inside a class; closers and cmake_parse_arguments carry no doccomment",
               "argument texts contain no separators/quotes (what an Identifier/Unquoted token can be); token types are not read by the aggregator",
               "lexer and parser are bypassed by the tree builder (real CMakeParser.*Context objects, real ParseTreeWalker); their behaviour is engine E2's subject"]

META = {
 "C01": dict(
  explanation="Bounded symbolic execution (CrossHair+z3) of the real doccomment path: (a,b) clean_doc_lines on canonical / leaderless blocks with symbolic indentation, "
              "line count fixed per shard and every character and line length symbolic == the specification text; (c) two adjacent documented commands of every pair of "
              "kinds: real walker -> aggregator -> *.process -> RSTWriter, whole page == spec_render by one equality (each doc line once, in order, inside its own directive); "
              "(d) z3 regex queries on the lexer ATN: the canonical doccomment language (any number/length of lines) is exactly one Docstring/Module_docstring token; "
              "(e) z3 bit-vector model of the codec the real Documenter passes to the runtime: every code point round-trips. "
              "Also: text on the opening line ('#[[[ text') of blocks indented wider than the opening delimiter (found D18), long lines, deep indentation; thorough tier: every regex query "
              "re-decided by z3 4.8.12 and cvc5 1.4.0.",
  assumptions=["doc line texts: arbitrary code points except LF, CR and the substring ']]' (the canonical form)"] + STEP_ASSUME[2:],
  outside=["encoding of the output file (open(file,'w') uses the locale)", "doccomments containing CR or ']]'", "leaderless indented blocks"],
  trusted=TRUSTED_CH + TRUSTED_E2),
 "C02": dict(
  explanation="Inductive step: for an arbitrary abstract state sigma (definition/class stacks up to the bound, every frame entry-or-none, pending declaration) and one command "
              "of each kind (symbolic arguments, documented flag, letter case, token positions) the real walk over the real aggregator built from sigma ends in gamma(delta(sigma,c)); "
              "one shard per command kind incl. every name the by-name dispatch can find and a symbolic command name. Plus bounded whole sequences from the initial state "
              "rendered to a page == delta folded + spec_render, generic invocations with parenthesised groups, and z3 lemmas on the parser/lexer ATNs "
              "(doccomment not followed by a command is only a bracket_doccomment; comments are skipped whatever they contain).",
  assumptions=STEP_ASSUME,
  outside=["which alternative the ANTLR runtime picks for 'Docstring Identifier (' (lowest alternative = documented_command) is trusted"],
  trusted=TRUSTED_CH + TRUSTED_E2),
 "C03": dict(
  explanation="Inductive step on the definition stack (depth <= 3, arbitrary kwargs flag per frame) with a FREE regex shim: re.sub(p,'',s) is the opaque term <p|s>, so the claim "
              "holds for every strip pattern at once; the shim log shows one call per parameter with the pattern of this kind and never on the name; trigger string and doc text "
              "symbolic (containment decided by z3). Plus signature rendering of function/macro entries with 0..n symbolic parameters == spec, "
              "incl. parameters of the marker's own length (a parameter spelled '**kwargs').",
  assumptions=STEP_ASSUME + ["what a concrete regex matches is Python's re (outside)"], outside=["if()/foreach() blocks are ordinary commands to CMinx (covered as 'other' steps)"],
  trusted=TRUSTED_CH),
 "C04": dict(
  explanation="(a,b) z3 regex queries on the lexer ATN: every reference separator (space, newline, line comment with any text, bracket comment of level <= D) is exactly one skipped token "
              "whatever follows, and every reference token is lexed the same whatever separator or token start follows (coverage / longer-match / tie-break per rule). "
              "(c,f) letter case of the command name and token line/column are symbolic in the inductive-step shards and the oracle ignores them. "
              "(d,e) relational CrossHair harnesses: the same block re-indented with other space/tab characters, or with CRLF line ends, renders to the same page "
              "(CRLF: same after deleting CR and whitespace-only lines).",
  assumptions=["opening line of the doccomment holds only '#[[[' except in the two opening-line shards (concrete text there)"] + STEP_ASSUME[:1], outside=["bracket level > D", "CRLF inside quoted arguments", "doccomments containing ']]'"],
  trusted=TRUSTED_CH + TRUSTED_E2),
 "C05": dict(
  explanation="(a) decode: the codec the real Documenter hands to the runtime round-trips every code point (z3 bit-vector model, replayed on the real constructor). "
              "(b) one-step maximal munch against cmake-language(7): for every reference token class, coverage by the expected rules, no longer match by any of the token rules "
              "for every admissible following text, tie-break to the expected class (z3, unbounded lengths, bracket level <= D). (c) reference token-sequence language == language of the "
              "parser ATN (both inclusions, z3). (d) inductive-step shards assert 'no exception' incl. a symbolic command name. (e) translator validation: real CMakeLexer vs the regex "
              "model on the repo's files/tests, z3 witnesses and seeded random strings; thorough: every module shipped with CMake through the real Documenter (corpus replay). "
              "(f) witness replay: z3 picks valid files with large sizes (deep parentheses, high bracket levels, many arguments/commands, long lines); the real CLI must process each to completion.",
  assumptions=["legacy unquoted arguments are outside (as the property says)"], outside=["bracket/parenthesis depth > D", "CMake's own lexer is represented by manual-derived regexes",
           "line ends: the reference takes CR, CR LF and LF alike (as CMinx's grammar does); CMake ends a comment line at LF only: known finding D19, isolated in an obligation of its own",
           "a UTF-8 byte-order mark at the start of a file (CMake skips it, CMinx reads U+FEFF as argument text)"],
  trusted=TRUSTED_E2 + TRUSTED_CH),
 "C06": dict(
  explanation="(a) local fault lemmas (z3 on the lexer ATN): for each fault language of the remaining input (unterminated quote, backslash+alnum, backslash at EOF, bad escape inside quotes, "
              "unterminated #[[ / #[=[ ...) no live or skipped token rule matches a prefix, and argument token languages contain valid escapes only: the next lexer event is an error or a dead token; "
              "(b) the parser ATN accepts nothing outside the reference sequence language (unbalanced parentheses, bare words, dead tokens); (c) CrossHair: the error-listener dispatch of BOTH the real "
              "Documenter's lexer and parser raises for every reported error; (d) CrossHair on a virtual file system: a file whose processing raises leaves document() with the exception and nothing is written/printed for it; "
              "(e) witness replay: z3 picks members of (valid prefix . fault . valid suffix) for 7 fault classes x 6-7 position classes x 2 sizes; the real cminx.main must fail and write nothing for each "
              "(this closes the joint 'ANTLR's error recovery', which the lemmas trust; it found D13).",
  assumptions=["faults at a token boundary (boundaries are the reference boundaries by C05.b)", "ANTLR calls the listener for every mismatch (runtime contract)"],
  outside=["faults inside comments (the property excludes them)", "unterminated bracket *arguments* (not in the property's list; lexed as legacy unquoted text)"],
  trusted=TRUSTED_E2 + TRUSTED_CH),
 "C07": dict(
  explanation="Nesting lemma: every entry kind (incl. a class with constructor, methods, attribute, inner class) with symbolic names/arguments and doc lines of shard-constant reST shapes "
              "(plain, blank, field, bullet, indented continuation, nested directive, literal marker) is rendered by the real *.process + RSTWriter to exactly spec_render, whose nesting "
              "(options under the heading, blank line, content at 3*(d+1) spaces, nested directives one level deeper, entries as column-0 siblings) is evident from its construction; the macro flag of test/section entries is symbolic; C07.c: values and help "
              "texts holding the escape sequences backslash-n, backslash-t, double backslash reach the page as written, on one line. "
              "C07.b validates that lemma (not a solver verdict): 490 pages rendered by the real code are parsed by the real docutils into title / module / entry siblings without error-level messages.",
  assumptions=["names/arguments contain no line breaks (the property's precondition)"],
  outside=["that this indentation lemma implies a clean docutils parse for every valid reST body is argued, not solved; docutils itself is not executed symbolically"],
  trusted=TRUSTED_CH),
 "C08": dict(
  explanation="Inductive step with the ten include_undocumented_* flags symbolic: real post-state == delta(sigma, c, flags) where delta says shown = documented or flag[kind]; "
              "so a documented command's entry and all reference updates are flag-independent, an undocumented K-command has an entry iff flag K, stacks stay aligned. "
              "Known finding D3 (documented cpp_class with its flag off) is subtracted from the cpp_class shard and isolated in a shard of its own.",
  assumptions=STEP_ASSUME, outside=[], trusted=TRUSTED_CH),
 "C09": dict(
  explanation="Inductive step on the class stack (depth <= 3/4) for cpp_class / cpp_end_class / cpp_attr / cpp_member / cpp_constructor / implementing function|macro / other, with identity "
              "checks (attachment to the innermost class only, inner-class registration, pending declaration consumed by the next definition, parameters without name and self). "
              "Plus class rendering (bases, constructors, methods with position-wise :type: pairing and variadic marker, attributes with/without default, inner classes) == spec.",
  assumptions=STEP_ASSUME, outside=[], trusted=TRUSTED_CH),
 "C10": dict(
  explanation="Documented set()/option() through the real aggregator and renderer with 0..3 values of shard-constant token class (identifier, unquoted, unquoted ending in an escaped quote, "
              "quoted, quoted with escaped quote, empty string, bracket, variable reference) and symbolic text: page == spec (type by count, default as written, quotes removed only from a single quoted value, list joined by blanks; option: help, default or OFF, bool, note); values with escape sequences; the same name declared twice; "
              "C10.b rendering with doccomments that carry a ':type:' field of their own: the generated type/default/help fields are all there.",
  assumptions=["value texts conform to their token class"], outside=["the text shown as default of an UNSET variable is not prescribed (prefix/suffix comparison there)"], trusted=TRUSTED_CH),
 "C11": dict(
  explanation="ct_add_test / ct_add_section / add_test through the real aggregator and renderer; argument pattern (position of NAME, presence/position of EXPECTFAIL, number of other arguments) "
              "is a shard constant, every other argument is symbolic text (may equal the name, 'name', 'expectfail' or embed a keyword): page == spec (exact upper-case keywords; add_test "
              "signature = all arguments except NAME and the one after it, by position). Nesting of sections: inductive steps on pending/definition stack.",
  assumptions=["keywords appear only where the shard puts them"] + STEP_ASSUME[:1], outside=[], trusted=TRUSTED_CH),
 "C12": dict(
  explanation="(a) E4: the AST of the real document_single_file is translated to z3 string terms (If-merged); title and module name == spec_names for strings of ANY length in directory "
              "mode and for a lone file; spec_names injective; (b) title framing with symbolic titles/header characters incl. re-framing; (c) '@module' doccomment through the real aggregator/"
              "Documenter: one module directive first, name = title = module name, body under the module directive only; (d) z3: '#[[[ @module ...' is lexed as Module_docstring.",
  assumptions=["relpath contract: file = root + rel with rel normalised and relative (validated concretely against posixpath)", "file names contain no newline"],
  outside=["mixed-case .CMAKE extensions in titles"], trusted=TRUSTED_CH + TRUSTED_E2 + ["lib/e4.py interpreter (validated on fixtures against the real function on every run)"]),
 "C13": dict(
  explanation="Real cminx.document / document_single_file on a virtual file system against the oracle spec_tree: set of written paths == pages of processed files + one index.rst per processed "
              "directory, each once, page text = what the Documenter stub yields for that file. Symbolic: matcher verdict per entry and for the input path, listing order per directory, "
              "(presence), recursive / auto-exclusion as shards, output placement, prefix. Names incl. inner dots, a file named 'cmake' (found D16), names differing in case, "
              "an output directory nested in the tree next to a sibling with its name as prefix; the input path as a symbolic link; deep and wide trees.",
  assumptions=["OS contract: a finite tree that does not change during the run, listed in arbitrary order; no races, no I/O errors; symbolic links only in the shards that say so (the input path is a link to the tree; one link to a sibling directory inside the tree, followed or not)",
               "with auto-exclusion on, the input directory holds a non-excluded lower-case .cmake file and mixed-case extensions sit next to one (the property's quantifier)"],
  outside=["file and directory names are concrete (menus incl. dots, dashes, mixed case, 3 levels); symbolic names through posixpath do not terminate"], trusted=TRUSTED_CH),
 "C14": dict(
  explanation="Same harness family: every recorded index.rst (real RSTWriter/Directive output) has a toctree listing exactly the processed cmake files of its directory and <sub>/index.rst for "
              "exactly its processed subdirectories, each once; every toctree entry has a recorded target; titles = prefix / prefix+sep+relative directory (also for separators other than '.'); "
              "closure mode: for sub-directories holding only mixed-case *.CMAKE files every toctree entry still has a target and every page is reachable; "
              "input path = symbolic link (titles name the path as given); a symbolic link to a sibling directory that is not followed is not listed (found D17); "
              "known finding D15 (index.cmake) isolated on skeleton S7.",
  assumptions=["as C13"], outside=["as C13"], trusted=TRUSTED_CH),
 "C15": dict(
  explanation="Same harness family with the matcher a fully symbolic predicate over the paths CMinx asks about: an entry is processed iff the predicate is false for it and its ancestors; "
              "excluded directories are not descended into; an excluded input path has no recorded effect; directories are asked in directory form. Adjacency/order covered by per-position verdicts and symbolic listing order.",
  assumptions=["as C13"], outside=["that pathspec's GitWildMatchPattern implements gitignore semantics for the absolute paths CMinx passes (third-party regex translation, trusted)",
           "patterns are matched against ABSOLUTE paths (CMinx's documented design): an unanchored pattern can match a component of the input tree's own location; the matcher is a symbolic verdict per path here, so what a pattern matches is not decided"], trusted=TRUSTED_CH),
 "C16": dict(
  explanation="CrossHair through the real cminx.main -> argparse -> confuse -> config_template -> dict_to_settings, one shard per option of the input/output/rst sections (taken from the real template): "
              "for every subset of sources that set the option and symbolic values, the value in effect == highest-priority source, else the packaged default (a command-line value may be the empty string); exclude filters = union as a set (a file may give the empty list); "
              "long option spellings; several input paths in one run are each documented under the same values; "
              "output directory resolution incl. relative_to_config (set in either file), with and without a -s file, against the working directory at the time main() runs; wrong type rejected.",
  assumptions=["YAML syntax is outside (loader stubbed with symbolic dictionaries)", "logging.config replaced by {'version': 1}", "CLI values do not start with '-' (argparse convention)"],
  outside=["the platform rule locating the per-user file"], trusted=TRUSTED_CH + ["confuse, argparse executed symbolically as they are"]),
 "C17": dict(
  explanation="(a) relational virtual-FS harness: same tree listed in another order (incl. names differing only in letter case), run from another working directory with a relative input path, "
              "or after another input was documented with the same Settings object (as main() does) => identical recorded writes; "
              "(d) hash seed: inside the cminx modules set/frozenset are replaced by a model whose iteration order the harness chooses (insertion order / reversed); main() run under both orders hands the exclude patterns to the matcher in the same order; "
              "(b) frame lemma: processing any pair of command kinds leaves RSTWriter.heading_level_chars, the constructors' default Settings instances and the passed Settings unchanged, "
              "and re-processing after an unrelated file gives the same page; (c) lone file: title/module name = base name, independent of the location.",
  assumptions=["as C13"], outside=["location dependence through the exclude-pattern language (patterns see absolute paths; the matcher is a symbolic verdict per path)", "hash-seed dependence through anything but the iteration order of set/frozenset objects built in cminx's own modules (explicit hash() calls, sets built inside third-party code) is not decided", "the set model offers two orders (insertion, reversed), not every permutation"], trusted=TRUSTED_CH),
 "C18": dict(
  explanation="(a) every recorded makedirs/write lies under the output directory for every placement of it (elsewhere, nested in the input tree, parent of it, relative), nothing is printed; CrossHair's "
              "side-effect guard is on: no real file-system write happens on any explored path; (b) stdout mode: nothing written, stdout == exactly the pages of the -o run, each followed by one empty line, sorted within a directory.",
  assumptions=["as C13"], outside=["order between directories in stdout mode", "the per-user configuration directory confuse creates in main()"], trusted=TRUSTED_CH),
 "C19": dict(
  explanation="E3: the body of cminx_gen_rst is parsed from cmake/cminx.cmake and interpreted over z3 string terms (DFS over the symbolic IS_DIRECTORY condition, |ARGN| = 0..3); "
              "negated spec_argv (input verbatim, -o output, -r iff directory, extra arguments as one ordered block, COMMAND_ERROR_IS_FATAL ANY) is unsat; list(APPEND/PREPEND/REMOVE_DUPLICATES) and "
              "get_filename_component (uninterpreted) are interpreted, as are if() conditions built with NOT/AND/OR over IS_DIRECTORY, EXISTS, STREQUAL, DEFINED and variable truth, cmake_parse_arguments, "
              "file(GLOB*/STRINGS) (file-system answers = arbitrary values chosen by the solver, made true on disk for the replay); witnesses and fixtures are replayed with the real cmake -P (input reached through a symbolic link).",
  assumptions=["extra arguments non-empty and free of ';' (CMake list semantics)", "argparse is order-insensitive between optionals"],
  outside=["the generated cminx-config.cmake (needs an install tree)"], trusted=["z3", "lib/e3.py interpreter (validated against cmake -P on every run)"]),
 "C20": dict(
  explanation="Documents built through the public writer API by construction scripts (paragraphs, fields, lists, directives nested to depth 3 with options added before or after content, sections): "
              "to_text() == spec_render(script) by one equality, repeated to_text()/str() equal and document unchanged, also when the document is serialised after every construction step; "
              "title framing after title change and clear(); deep chains (12/40 levels) and wide documents.",
  assumptions=["script structure is a shard constant; every string piece symbolic"], outside=[], trusted=TRUSTED_CH),
}
