"""The inductive step of DESIGN.md section 4 (C02.a, C03.a, C05.d, C08.a, C09.a, C04.c/f):

  for every abstract state sigma (within the stack bounds) and every command c of shard kind KIND:
      walk(real aggregator built from sigma, real tree of c)  ==  gamma(delta(sigma, c))

gamma builds the real objects and the abstract ones in lockstep; the post-state comparison is structural equality of all
entries plus *identity* of stack frames / pending references."""
import hc, prog, delta
from typing import List, Tuple
from antlr4 import ParseTreeWalker
from cminx.aggregator import DocumentationAggregator, DefinitionCommand
from cminx.config import Settings
import cminx.documentation_types as dt

KIND = @@KIND@@            # command kind, or "@other" (symbolic command name)
MAXD = @@MAXD@@            # bound on |defs|
MAXC = @@MAXC@@            # bound on |classes|
NA = @@NA@@                # number of symbolic argument texts (0 when CARGS is given)
CARGS = @@CARGS@@          # None, or concrete placeholder argument texts (state-heavy shards keep the arguments concrete)
CASES = @@CASES@@          # letter-case variants of the command name explored in this shard: 0 lower, 1 UPPER, 2 Capitalized
BLANKDOC = @@BLANKDOC@@    # the doccomment may be empty ('#[[[' / '#]]' with no text line): symbolic choice
SYMKW = @@SYMKW@@          # kwargs flag of every open definition frame symbolic (C03) or False
ALEN = @@ALEN@@            # exact length of each symbolic argument text
SYMFLAGS = @@SYMFLAGS@@    # ten include_undocumented_* flags symbolic (C08) or default
FREE = @@FREE@@            # free regex shim + symbolic strip patterns and trigger (C03)
NAMELEN = @@NAMELEN@@      # exact length of the symbolic command name ("@other" only)
TL = @@TL@@                # trigger length, doc text length = DL (FREE only)
DL = @@DL@@
SPECIAL = @@SPECIAL@@      # names with a processor or block semantics (computed from the real class by the driver)
BAD = " " + chr(9) + chr(10) + chr(13) + "()#" + chr(34) + chr(92)
_shim = hc.shim_re("free" if FREE else "real")
hc.quiet_logging()
DOCBLOCK_HEAD = "#[[[" + chr(10) + "# "
DOCBLOCK_TAIL = chr(10) + "#]]"


NCP = @@NCP@@              # NA * ALEN code points for the argument texts
DEEPD = @@DEEPD@@          # extra concrete frames (documented functions) at the BOTTOM of the definition stack: deep nesting at no path cost
DEEPC = @@DEEPC@@          # extra concrete frames (documented classes, each the inner class of the one below) at the bottom of the class stack
PREARGS = @@PREARGS@@      # concrete argument texts inserted after the first symbolic argument (long parameter / argument lists)
REGION = @@REGION@@        # None | ("D3", "out") | ("D3", "in"): known-finding region subtracted from / isolated in this shard


def _region(documented, flags) -> bool:
    """D3: a cpp_class() carrying a doccomment while include_undocumented_cpp_class is false"""
    return KIND == "cpp_class" and SYMFLAGS and documented and not flags[2]


def _argsok(cps) -> bool:
    if NA == 0:
        return True
    # C03 (FREE): parameters may be quoted strings, variable references, bracket arguments: any characters but line breaks
    return hc.cps_ok(cps, bad=(10, 13) if FREE else hc.PLAINBAD)


def _identifier(n) -> bool:
    """a command name is an Identifier token: [A-Za-z_][A-Za-z0-9_]*"""
    for i in range(len(n)):
        c = n[i]
        if not ((65 <= c <= 90) or (97 <= c <= 122) or c == 95 or (i > 0 and 48 <= c <= 57)):
            return False
    return True


def _args(cps):
    pc = hc.Pieces(cps)
    return [pc.take(ALEN) for _ in range(NA)]


def gamma(defs, kw, classes, pending, settings):
    """abstract state -> (abstract State, real aggregator, pairs of (abstract, real) for every pre-existing entry)"""
    st = delta.State()
    agg = DocumentationAggregator(settings)
    pairs = []
    for i in range(DEEPD):
        a = delta.E("function", "deep" + str(i), "", params=[], kwargs=False)
        r = dt.FunctionDocumentation("deep" + str(i), "", [], False)
        st.entries.append(a); agg.documented.append(r); pairs.append((a, r))
        st.defs.append(a); agg.definition_command_stack.append(DefinitionCommand(r))
    for i in range(DEEPC):
        a = delta.E("class", "Deep" + str(i), "", bases=[], ctors=[], methods=[], attrs=[], inner=[])
        r = dt.ClassDocumentation("Deep" + str(i), "", [], [], [], [], [])
        st.entries.append(a); agg.documented.append(r); pairs.append((a, r))
        if i > 0:
            st.classes[-1].inner.append(a); agg.documented_classes_stack[-1].inner_classes.append(r)
        st.classes.append(a); agg.documented_classes_stack.append(r)
    for i in range(len(defs)):
        if defs[i]:
            a = delta.E("macro" if i % 2 else "function", "g" + str(i), "", params=["p"], kwargs=kw[i])
            r = (dt.MacroDocumentation if i % 2 else dt.FunctionDocumentation)("g" + str(i), "", ["p"], kw[i])
            st.entries.append(a); agg.documented.append(r); pairs.append((a, r))
            st.defs.append(a); agg.definition_command_stack.append(DefinitionCommand(r))
        else:
            st.defs.append(None); agg.definition_command_stack.append(DefinitionCommand(None, False))
    for i in range(len(classes)):
        if classes[i]:
            a = delta.E("class", "C" + str(i), "", bases=[], ctors=[], methods=[], attrs=[], inner=[])
            r = dt.ClassDocumentation("C" + str(i), "", [], [], [], [], [])
            st.entries.append(a); agg.documented.append(r); pairs.append((a, r))
            if len(st.classes) > 0 and st.classes[-1] is not None:
                st.classes[-1].inner.append(a); agg.documented_classes_stack[-1].inner_classes.append(r)
            st.classes.append(a); agg.documented_classes_stack.append(r)
        else:
            st.classes.append(None); agg.documented_classes_stack.append(None)
    if pending == 1:
        a = delta.E("method", "pm", "", parent="C", types=["int"], params=[], ctor=False, is_macro=False)
        r = dt.MethodDocumentation("pm", "", "C", ["int"], [], False)
        st.classes[-1].methods.append(a); agg.documented_classes_stack[-1].members.append(r)
        st.pending = a; agg.documented_awaiting_function_def = r; pairs.append((a, r))
    elif pending == 2:
        a = delta.E("test", "pt", "", expect_fail=False, params=[], is_macro=False)
        r = dt.TestDocumentation("pt", "", False)
        st.entries.append(a); agg.documented.append(r); pairs.append((a, r))
        st.pending = a; agg.documented_awaiting_function_def = r
    return st, agg, pairs


def make_args(a, ef):
    if KIND in ("ct_add_test", "ct_add_section"):
        return ["NAME"] + list(a) + (["EXPECTFAIL"] if ef else [])
    if KIND == "add_test":
        return ["NAME"] + list(a[:1]) + ["COMMAND"] + list(a[1:])
    if KIND in delta.CLOSERS:
        return []
    a = list(a)
    if PREARGS and len(a) >= 1:
        a = a[:1] + list(PREARGS) + a[1:]
    return a


def partner(abs_e, st, agg, pairs):
    """the real object that must correspond to the abstract entry after the step"""
    for (a, r) in pairs:
        if a is abs_e:
            return r
    for j in range(len(st.entries)):
        if st.entries[j] is abs_e:
            return agg.documented[j] if j < len(agg.documented) else None
    # a method created by this step: last element of the innermost class's list
    for c_abs in st.classes:
        if c_abs is not None:
            c_real = partner(c_abs, st, agg, pairs)
            for (al, rl) in ((c_abs.methods, c_real.members), (c_abs.ctors, c_real.constructors)):
                for j in range(len(al)):
                    if al[j] is abs_e:
                        return rl[j] if j < len(rl) else None
    return None


def check(defs: List[bool], kw: List[bool], classes: List[bool], pending: int, documented: bool, case: int, cps: $$CPS$$,
          ef: bool, ncps: $$NT$$, flags: List[bool], fcps: $$FT$$, line: int, col: int, blank: bool) -> bool:
    """
    pre: len(defs) <= MAXD and len(kw) == (len(defs) if SYMKW else 0) and len(classes) <= MAXC and 0 <= pending <= 2 and case in CASES
    pre: _argsok(cps)
    pre: not (pending == 1 and ((len(classes) == 0 and DEEPC == 0) or (len(classes) > 0 and not classes[-1])))
    pre: not (pending != 0 and KIND not in ("function", "macro"))
    pre: not (KIND in ("endfunction", "endmacro") and len(defs) + DEEPD == 0)
    pre: not (KIND == "cpp_end_class" and len(classes) + DEEPC == 0)
    pre: not (KIND in ("cpp_attr", "cpp_member", "cpp_constructor") and len(classes) + DEEPC == 0)
    pre: not (documented and KIND in ("endfunction", "endmacro", "cpp_end_class", "cmake_parse_arguments"))
    pre: (len(flags) == 10) if SYMFLAGS else (len(flags) == 0)
    pre: hc.cps_ok(fcps, bad=(10, 13)) if FREE else fcps == (0,)
    pre: (_identifier(ncps) and all(hc.S(ncps).lower() != s for s in SPECIAL)) if KIND == "@other" else ncps == (0,)
    pre: not ef or KIND in ("ct_add_test", "ct_add_section")
    pre: (BLANKDOC and documented) or not blank
    pre: REGION is None or (_region(documented, flags) == (REGION[1] == "in"))
    post: _
    """
    a = _args(cps)
    name = hc.S(ncps) if KIND == "@other" else ""
    pats, trig, d = [], "", ""
    if FREE:
        pats = [chr(fcps[0]), chr(fcps[1]), chr(fcps[2])]
        trig = hc.S(fcps[3:3 + TL])
        d = hc.S(fcps[3 + TL:])
        if "]]" in d:
            return True
    settings = Settings()
    fl = dict(delta.DEFAULT_FLAGS)
    if SYMFLAGS:
        for i in range(10):
            fl[delta.FLAG_KINDS[i]] = flags[i]
            setattr(settings.input, "include_undocumented_" + delta.FLAG_KINDS[i], flags[i])
    trigger = settings.input.kwargs_doc_trigger_string
    strip = delta.no_strip
    doctext = "d"
    if FREE:
        settings.input.function_parameter_name_strip_regex = pats[0]
        settings.input.macro_parameter_name_strip_regex = pats[1]
        settings.input.member_parameter_name_strip_regex = pats[2]
        settings.input.kwargs_doc_trigger_string = trig
        trigger = trig
        pat = {"function": pats[0], "macro": pats[1], "member": pats[2]}
        strip = lambda which, s: "<" + pat[which] + "|" + s + ">"
        doctext = d
        _shim.log.clear()
    st, agg, pairs = gamma(defs, kw if SYMKW else [False] * len(defs), classes, pending, settings)
    pre_real = list(agg.documented)
    if KIND == "@other":
        cname = name
    else:
        cname = [KIND, KIND.upper(), KIND.capitalize()][case]
    args = make_args(a if CARGS is None else CARGS, ef)
    block = (DOCBLOCK_HEAD + doctext + DOCBLOCK_TAIL) if documented else None
    cleaned = (doctext + chr(10)) if documented else ""
    if blank:
        block = hc.canon_block("", [])       # a doccomment without any text still is a doccomment: the command carries one
        cleaned = ""
    tree = hc.file_ctx([(block, cname, [(hc.ID, x) for x in args])], line0=line, column=col)
    # ---- real step (must not raise on a well-formed command: C05.d)
    try:
        ParseTreeWalker().walk(agg, tree)
    except Exception:
        return hc.report(False, defs=defs, kw=kw, classes=classes, pending=pending, documented=documented, case=case, cps=cps, ef=ef,
                         ncps=ncps, flags=flags, fcps=fcps, line=line, col=col, blank=blank)
    # ---- specification step
    delta.step(st, documented, cleaned, cname, args, fl, trigger, strip)
    # ---- compare post-states
    ok = len(agg.documented) == len(st.entries)
    if ok:
        for j in range(len(pre_real)):
            ok = ok and agg.documented[j] is pre_real[j]
        for j in range(len(st.entries)):
            ok = ok and delta.same_entry(agg.documented[j], st.entries[j])
    for (ab, re_) in pairs:                       # every pre-existing object still mirrors its abstract twin (frame condition)
        ok = ok and delta.same_entry(re_, ab)
    ds = agg.definition_command_stack
    ok = ok and len(ds) == len(st.defs)
    if ok:
        for j in range(len(ds)):
            if st.defs[j] is None:
                ok = ok and ds[j].documentation is None
            else:
                ok = ok and ds[j].documentation is partner(st.defs[j], st, agg, pairs)
    cs = agg.documented_classes_stack
    ok = ok and len(cs) == len(st.classes)
    if ok:
        for j in range(len(cs)):
            if st.classes[j] is None:
                ok = ok and cs[j] is None
            else:
                ok = ok and cs[j] is partner(st.classes[j], st, agg, pairs)
    if ok:
        if st.pending is None:
            ok = agg.documented_awaiting_function_def is None
        else:
            ok = agg.documented_awaiting_function_def is partner(st.pending, st, agg, pairs)
    if ok and FREE and KIND in ("function", "macro") and pending == 0 and (documented or fl[KIND]):
        # the strip pattern of *this* kind is applied once per parameter, never to the name
        which = pats[0] if KIND == "function" else pats[1]
        ok = len(_shim.log) == len(args) - 1
        for j in range(len(args) - 1):
            ok = ok and _shim.log[j][0] == which and _shim.log[j][1] == args[j + 1]
    return hc.report(ok, defs=defs, kw=kw, classes=classes, pending=pending, documented=documented, case=case, cps=cps, ef=ef,
                     ncps=ncps, flags=flags, fcps=fcps, line=line, col=col, blank=blank)
