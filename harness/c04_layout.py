"""C04.d re-indentation and C04.e LF->CRLF, relational: the same doccomment block in two layouts gives the same page
(for CRLF: the same after deleting CR characters and whitespace-only lines)."""
import hc, prog
from typing import List, Tuple
from cminx.config import Settings

MODE = @@MODE@@        # "indent" | "crlf"
N = @@N@@              # body lines
L = @@L@@              # chars per body line
K = @@K@@              # indent width of the first layout (each char space or tab, symbolic)
K2 = @@K2@@            # indent width of the second layout (re-indentation may change the width, e.g. to 0)
LENS = @@LENS@@          # length of every body line; 0 = a physically empty line (editors do not indent empty lines when re-indenting)
LEADER = @@LEADER@@    # body lines carry the '# ' leader (canonical) or are arbitrary text
KIND = @@KIND@@
PRE = @@PRE@@          # concrete prefix of the first layout's indentation (wide indentation at no path cost)
OPEN = @@OPEN@@        # concrete text that follows '#[[[' on the opening line ("" = nothing)
NCP = @@NCP@@          # sum(LENS)
hc.shim_re("real")
hc.quiet_logging()


def _block(ind, texts, eol):
    s = "#[[[" + OPEN
    for t in texts:
        if t == "":
            s = s + eol                      # a blank line stays blank whatever the block's indentation
        else:
            s = s + eol + ind + (("# " + t) if LEADER else t)
    return s + eol + ind + "#]]"


def _norm(page):
    out = []
    for line in page.replace(chr(13), "").split(chr(10)):
        if line.strip(" " + chr(9)) != "":
            out.append(line)
    return out


def check(cps: $$CPS$$, i1: $$IT$$, i2: $$IT$$) -> bool:
    """
    pre: hc.cps_ok(cps, bad=(10, 13)) and all(c == 32 or c == 9 for c in i1) and all(c == 32 or c == 9 for c in i2)
    post: _
    """
    pc = hc.Pieces(cps)
    texts = [pc.take(n) for n in LENS]
    for t in texts:
        if "]]" in t:
            return True
    a = PRE + hc.S(i1[:K]); b = hc.S(i2[:K2])
    if MODE == "indent":
        b1 = _block(a, texts, chr(10)); b2 = _block(b, texts, chr(10))
        p1 = prog.real_page(prog.documented_unit(KIND, b1, "", "1"), Settings())
        p2 = prog.real_page(prog.documented_unit(KIND, b2, "", "1"), Settings())
        return hc.report(p1 == p2, cps=cps, i1=i1, i2=i2)
    b1 = _block(a, texts, chr(10)); b2 = _block(a, texts, chr(13) + chr(10))
    p1 = prog.real_page(prog.documented_unit(KIND, b1, "", "1"), Settings())
    p2 = prog.real_page(prog.documented_unit(KIND, b2, "", "1"), Settings())
    return hc.report(_norm(p1) == _norm(p2), cps=cps, i1=i1, i2=i2)
