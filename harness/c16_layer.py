"""C16: settings layering through the real cminx.main -> argparse -> confuse (Configuration, set_file, set_args, get(template))
-> config_template -> dict_to_settings. YAML loader stubbed (symbolic dictionaries for the -s file and the per-user file, the real
parse of config_default.yaml for the packaged defaults); logging config replaced by {"version": 1}; cminx.document = recorder."""
import hc
import copy, os
from typing import List, Tuple
import confuse, confuse.yaml_util as yu
import cminx

MODE = @@MODE@@          # bool | str | strseq | excl | exclseed | outdir | wrongtype
SECTION = @@SECTION@@
OPTION = @@OPTION@@
CLI = @@CLI@@            # command-line flag that sets this option, or None
L = @@L@@
EXTRA = @@EXTRA@@        # further command-line arguments always present (another flag of the same run: options must not disturb each other)
NIN = @@NIN@@            # number of input paths on the command line (every one is documented, in order, with the same settings in effect)
SFLAG = @@SFLAG@@        # spelling of the settings-file option on the command line: -s | --settings
FIXB = @@FIXB@@          # argument name -> fixed boolean (shard constants that split large shards)
hc.quiet_logging()
hc.install_set_model()      # C17: set iteration order inside cminx is chosen by the harness (hash-seed model)
EXCL = MODE in ("excl", "exclseed")

_real_load = yu.load_yaml
DEFAULT_PATH = os.path.join(os.path.dirname(cminx.__file__), "config_default.yaml")
DEFAULTS = _real_load(DEFAULT_PATH)
DEFAULT_VALUE = DEFAULTS.get(SECTION, {}).get(OPTION) if SECTION else None
DEFAULTS["logging"] = {"version": 1}       # logging configuration is environment, not under test
USERDIR = os.path.join(os.environ["XDG_CONFIG_HOME"], "cminx")
USERFILE = os.path.join(USERDIR, "config.yaml")
os.makedirs(USERDIR, exist_ok=True)
open(USERFILE, "a").close()                # confuse loads the per-user file only if it exists (its content comes from the stub)
SFILE = "/cfg/s.yaml"


class Env:
    user = {}
    sfile = {}


def fake_load(filename, loader=None):
    if filename == DEFAULT_PATH:
        return copy.deepcopy(DEFAULTS)
    if filename == SFILE:
        return Env.sfile
    if filename == USERFILE:
        return Env.user
    raise AssertionError("unexpected YAML file " + str(filename))


yu.load_yaml = fake_load


class QuietList(list):
    """main() formats the exclude-filter list into a debug log message; formatting symbolic strings realises them value by
    value. The list built by main() is this subclass (same content, same behaviour), whose text form is a constant."""
    _vf_quiet_format = True

    def __format__(self, spec):
        return "<quiet>"


cminx.list = QuietList
captured = []
inputs_seen = []


def _rec_document(input_file, settings):
    inputs_seen.append(input_file)
    captured.append(settings)


cminx.document = _rec_document
INPUTS = ["in.cmake"] + ["more%d" % i for i in range(1, NIN)]
import cminx.config as _cfg


class _PathAtCall:
    def __getattr__(self, n):
        return getattr(os.path, n)

    @staticmethod
    def abspath(p):
        return os.path.normpath(os.path.join("/now/cwd", p))


class _OsAtCall:
    """the working directory *at the time main() runs* (changed since `import cminx`): everything else is the real os module"""
    path = _PathAtCall()

    def __getattr__(self, n):
        return getattr(os, n)

    @staticmethod
    def getcwd():
        return "/now/cwd"


_cfg.os = _OsAtCall()
cminx.os = _OsAtCall()
import confuse.templates as _ct
_ct.os = _OsAtCall()               # confuse falls back to the current directory for sources without a file
DIRS = ["out", "/abs/out", "sub/o", "../up"]


def _val(cps, i):
    """i-th symbolic value of this option's type"""
    if MODE in ("bool",):
        return cps[i] != 0
    if MODE == "str":
        return hc.S(cps[i * L:(i + 1) * L])
    if MODE == "strseq" or EXCL:
        return [hc.S(cps[i * 2 * L:i * 2 * L + L]), hc.S(cps[i * 2 * L + L:(i + 1) * 2 * L])]
    if MODE == "outdir":
        return DIRS[cps[i]]
    return None


def _cli_ok(cps) -> bool:
    """argparse's own convention: an option value must not look like a flag (start with '-'); menu indexes in range"""
    if MODE == "str":
        return cps[2 * L] != 45
    if EXCL:
        return cps[4 * L] != 45 and cps[5 * L] != 45
    if MODE == "outdir":
        return 0 <= cps[0] < len(DIRS) and 0 <= cps[1] < len(DIRS) and 0 <= cps[2] < len(DIRS)
    return True


def _put(v):
    return {SECTION: {OPTION: v}}


def check(u_set: bool, s_set: bool, c_set: bool, cps: $$CPS$$, rel_s: bool, rel_u: bool, which: int, kind: int, use_s: bool) -> bool:
    """
    pre: hc.cps_ok(cps, bad=(10, 13, 0)) and _cli_ok(cps)
    pre: CLI is not None or not c_set
    pre: MODE == "outdir" or (not rel_s and not rel_u)
    pre: use_s or (not s_set and not rel_s and MODE != "wrongtype")
    pre: all(dict(u_set=u_set, s_set=s_set, c_set=c_set, rel_s=rel_s, rel_u=rel_u, use_s=use_s)[k] == FIXB[k] for k in FIXB)
    pre: MODE == "wrongtype" or EXCL or (MODE == "str" and kind == 0 and (c_set or which == 0)) or (which == 0 and kind == 0)
    pre: 0 <= which <= 1 and 0 <= kind <= 2
    pre: not EXCL or ((s_set or which == 0) and (u_set or kind == 0) and kind <= 1)
    post: _
    """
    captured.clear()
    inputs_seen.clear()
    args = list(INPUTS) + list(EXTRA) + ([SFLAG, SFILE] if use_s else [])          # with and without a -s file on the command line
    if MODE == "wrongtype":
        bad = [1, "yes", ["x"]][kind] if isinstance(DEFAULT_VALUE, bool) else [True, 7, {"a": 1}][kind]
        Env.user = _put(bad) if which == 0 else {}
        Env.sfile = _put(bad) if which == 1 else {}
        try:
            cminx.main(args)
        except confuse.ConfigError:
            return hc.report(True, u_set=u_set, s_set=s_set, c_set=c_set, cps=cps, rel_s=rel_s, rel_u=rel_u, which=which, kind=kind, use_s=use_s)
        return hc.report(False, u_set=u_set, s_set=s_set, c_set=c_set, cps=cps, rel_s=rel_s, rel_u=rel_u, which=which, kind=kind, use_s=use_s)
    # values are built only for the sources that set the option (a menu lookup with a symbolic index forks)
    uv = _val(cps, 0) if u_set else None
    sv = _val(cps, 1) if s_set else None
    if EXCL:
        # a source may also set the option to an EMPTY list (the command line cannot: no -e at all is "not set")
        if u_set and kind == 1: uv = []
        if s_set and which == 1: sv = []
    cv = _val(cps, 2) if c_set else None
    Env.user = _put(uv) if u_set else {}
    Env.sfile = _put(sv) if s_set else {}
    if MODE == "outdir":
        # relative_to_config may be switched on in the -s file or in the per-user file (the default is false)
        if rel_s:
            Env.sfile = dict(Env.sfile)
            Env.sfile["output"] = dict(Env.sfile.get("output", {}), relative_to_config=True)
        if rel_u:
            Env.user = dict(Env.user)
            Env.user["output"] = dict(Env.user.get("output", {}), relative_to_config=True)
    if c_set and MODE == "str" and which == 1:
        cv = ""                            # an explicitly given EMPTY value on the command line (-p "") still outranks the files
    if c_set:
        if MODE == "bool":
            args = args + [CLI]
            cv = True                      # store_true flags can only switch the option on
        elif EXCL:
            args = args + [CLI, cv[0], CLI, cv[1]]
        else:
            args = args + [CLI, cv]
    hc.VSet.rev = False
    cminx.main(args)
    if len(captured) != NIN or inputs_seen != INPUTS:
        return hc.report(False, u_set=u_set, s_set=s_set, c_set=c_set, cps=cps, rel_s=rel_s, rel_u=rel_u, which=which, kind=kind, use_s=use_s)
    got = getattr(getattr(captured[0], SECTION), OPTION)
    for other in captured[1:]:         # every further input is documented under the same value
        g2 = getattr(getattr(other, SECTION), OPTION)
        if (list(g2) != list(got)) if isinstance(got, list) else (g2 != got):
            return hc.report(False, u_set=u_set, s_set=s_set, c_set=c_set, cps=cps, rel_s=rel_s, rel_u=rel_u, which=which, kind=kind, use_s=use_s)
    if MODE == "excl":
        # exclude patterns: the union of the patterns from all sources
        exp = (cv if c_set else []) + (sv if s_set else []) + (uv if u_set else [])
        ok = list(got) == exp          # the order confuse happens to yield (highest priority first) ...
        if not ok:                     # ... is not prescribed, nor is the multiplicity of a pattern given twice: the same SET of patterns is fine
            ok = all(any(g == e for g in got) for e in exp) and all(any(g == e for e in exp) for g in got)
    elif MODE == "exclseed":
        # C17 (hash seed): the ORDER of the patterns handed to the matcher decides under gitignore rules (the last matching pattern
        # wins, '!' negates), so it must not depend on the iteration order of a set: same run again under the other order model
        first = list(got)
        captured.clear()
        hc.VSet.rev = True
        cminx.main(args)
        hc.VSet.rev = False
        ok = len(captured) == NIN and list(getattr(getattr(captured[0], SECTION), OPTION)) == first
    elif MODE == "outdir":
        cwd = "/now/cwd"                # the current directory when main() runs, not when cminx was imported
        rel = rel_s or rel_u            # relative_to_config in effect (true in any source that sets it; default false)
        if c_set: exp = os.path.join(cwd, cv)                      # the command line has no file: current directory
        elif s_set: exp = os.path.join("/cfg" if rel else cwd, sv)
        elif u_set: exp = os.path.join(USERDIR if rel else cwd, uv)
        else: exp = None
        ok = got == (os.path.normpath(exp) if exp is not None else None)
    else:
        exp = cv if c_set else (sv if s_set else (uv if u_set else DEFAULT_VALUE))
        if MODE == "strseq":
            ok = list(got) == list(exp)
        else:
            ok = got == exp
    return hc.report(ok, u_set=u_set, s_set=s_set, c_set=c_set, cps=cps, rel_s=rel_s, rel_u=rel_u, which=which, kind=kind, use_s=use_s)
