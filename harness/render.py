"""Rendering obligations (C02.c, C03.b, C07.a, C09.b, C10/C11 rendering part): a real documentation entry of shard-constant kind
and shape, with symbolic text pieces, is rendered by the real *.process + RSTWriter and compared with spec_render by ONE equality."""
import hc, spec, delta
from typing import List, Tuple
from cminx.rstwriter import RSTWriter
from cminx.config import Settings
import cminx.documentation_types as dt

KIND = @@KIND@@          # function|macro|variable|option|generic|ctest|test|section|class|module
SHAPE = @@SHAPE@@        # kind-specific shape constants (dict)
DOC = @@DOC@@            # tuple of doc-line shapes (indexes into SHAPES); () = empty doc text
L = @@L@@                # exact length of every symbolic text piece
SHAPES = ["{}", "", ":f: {}", "* {}", "   {}", ".. x:: {}", "{}::", ":type: {}", ":param {}: x"]
hc.quiet_logging()


def _shape(i, w):
    if i == 0: return w
    if i == 1: return ""
    if i == 2: return ":f: " + w
    if i == 3: return "* " + w
    if i == 4: return "   " + w
    if i == 5: return ".. x:: " + w
    if i == 7: return ":type: " + w          # the doccomment itself states a type / a parameter: nothing generated may be dropped for it
    if i == 8: return ":param " + w + ": x"
    return w + "::"


def _count():
    """number of symbolic pieces needed"""
    n = len(DOC)
    k = KIND
    if k in ("function", "macro"): return n + 1 + SHAPE["np"]
    if k == "variable": return n + 1 + (1 if SHAPE["vtype"] != "UNSET" else 0)
    if k == "option": return n + 2 + (1 if SHAPE["default"] else 0)
    if k in ("generic", "ctest"): return n + 1 + SHAPE["np"]
    if k in ("test", "section"): return n + 1
    if k == "module": return n + 1
    if k == "class":
        c = 1 + SHAPE["bases"] + SHAPE["inner"]
        for (nt, npar, has_args) in SHAPE["ctors"] + SHAPE["methods"]:
            c += 1 + nt + npar
        for has_default in SHAPE["attrs"]:
            c += 1 + (1 if has_default else 0)
        return n + c
    raise ValueError(k)


NS = _count()
NB = {"function": 1, "macro": 1, "test": 2, "section": 2, "class": len(SHAPE.get("ctors", [])) + len(SHAPE.get("methods", []))}.get(KIND, 0)


NCP = @@NCP@@            # NS * L
FILL = @@FILL@@          # concrete filler appended to every symbolic piece (long names / long doc lines)


def check(cps: $$CPS$$, b: List[bool]) -> bool:
    """
    pre: len(b) == NB and hc.cps_ok(cps, bad=(10, 13))
    post: _
    """
    pc = hc.Pieces(cps)
    nx = lambda: pc.take(L) + FILL
    doc = ""
    for i in DOC:
        doc = doc + _shape(i, nx()) + chr(10)
    k = KIND
    if k in ("function", "macro"):
        name = nx(); params = [nx() for _ in range(SHAPE["np"])]
        real = (dt.MacroDocumentation if k == "macro" else dt.FunctionDocumentation)(name, doc, list(params), b[0])
        ab = delta.E(k, name, doc, params=list(params), kwargs=b[0])
    elif k == "variable":
        name = nx(); vt = SHAPE["vtype"]
        val = nx() if vt != "UNSET" else None
        real = dt.VariableDocumentation(name, doc, {"str": dt.VarType.STRING, "list": dt.VarType.LIST, "UNSET": dt.VarType.UNSET}[vt], val)
        ab = delta.E("variable", name, doc, vtype=vt, value=val)
    elif k == "option":
        name = nx(); hlp = nx(); dflt = nx() if SHAPE["default"] else None
        real = dt.OptionDocumentation(name, doc, "bool", dflt, hlp)
        ab = delta.E("option", name, doc, help=hlp, default=dflt)
    elif k in ("generic", "ctest"):
        name = nx(); params = [nx() for _ in range(SHAPE["np"])]
        real = (dt.GenericCommandDocumentation if k == "generic" else dt.CTestDocumentation)(name, doc, list(params))
        ab = delta.E(k, name, doc, params=list(params))
    elif k in ("test", "section"):
        name = nx()
        real = (dt.TestDocumentation if k == "test" else dt.SectionDocumentation)(name, doc, b[0])
        real.is_macro = b[1]               # set by the aggregator when the implementation is a macro: the entry stays one directive
        ab = delta.E(k, name, doc, expect_fail=b[0], params=[], is_macro=False)
    elif k == "module":
        name = nx()
        real = dt.ModuleDocumentation(name, doc)
        ab = delta.E("module", name, doc)
    else:
        name = nx()
        bases = [nx() for _ in range(SHAPE["bases"])]
        real = dt.ClassDocumentation(name, doc, list(bases), [], [], [], [])
        ab = delta.E("class", name, doc, bases=list(bases), ctors=[], methods=[], attrs=[], inner=[])
        bi = 0
        for (lst_r, lst_a, shapes, ctor) in ((real.constructors, ab.ctors, SHAPE["ctors"], True), (real.members, ab.methods, SHAPE["methods"], False)):
            for (nt, npar, has_args) in shapes:
                mname = nx()
                types = [nx() for _ in range(nt)] + (["args"] if has_args else [])
                params = [nx() for _ in range(npar)]
                lst_r.append(dt.MethodDocumentation(mname, "md" + chr(10), name, list(types), list(params), ctor, b[bi]))
                lst_a.append(delta.E("method", mname, "md" + chr(10), parent=name, types=list(types), params=list(params), ctor=ctor, is_macro=b[bi]))
                bi += 1
        for has_default in SHAPE["attrs"]:
            aname = nx(); dv = nx() if has_default else None
            real.attributes.append(dt.AttributeDocumentation(aname, "ad" + chr(10), name, dv))
            ab.attrs.append(delta.E("attribute", aname, "ad" + chr(10), parent=name, default=dv))
        for _ in range(SHAPE["inner"]):
            iname = nx()
            real.inner_classes.append(dt.ClassDocumentation(iname, "", [], [], [], [], []))
            ab.inner.append(delta.E("class", iname, "", bases=[], ctors=[], methods=[], attrs=[], inner=[]))
    w = RSTWriter("T", settings=Settings())
    real.process(w)
    got = w.to_text()
    if k == "variable" and SHAPE["vtype"] == "UNSET":
        # the properties fix the type of an unset variable, not the text of its (absent) default value
        head = spec.heading("T", "#") + chr(10) + ".. data:: " + name + chr(10) + chr(10) + spec.para(1, doc) + chr(10) + "   :Default value: "
        ok = got.startswith(head) and got.endswith(chr(10) + chr(10) + "   :type: UNSET" + chr(10) + chr(10))
    else:
        ok = got == spec.heading("T", "#") + delta.render_entry(ab)
    return hc.report(ok, cps=cps, b=b)
