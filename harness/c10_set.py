"""C10.a: documented set()/option() through the real aggregator and renderer; values of shard-constant token classes with symbolic text."""
import hc, prog, delta, spec
from typing import List, Tuple
from cminx.config import Settings

CMD = @@CMD@@            # "set" | "option"
CLS = @@CLS@@            # token class of each value: id | unq | unq_esc | quo | quo_esc | quo_nl | quo_empty | bra | ref
L = @@L@@                # length of the symbolic part of every piece
DOCUMENTED = @@DOCUMENTED@@
NCP = @@NCP@@            # = L (name) + L per value (0 for quo_empty) + 1 (doc char)
hc.shim_re("real")
hc.quiet_logging()
Q = chr(34)
BS = chr(92)


def _lens():
    return [0 if c == "quo_empty" else L for c in CLS]


def _ok(cps) -> bool:
    if not hc.cps_ok(cps):
        return False
    p = 0
    for c in cps[:L]:
        if c in hc.PLAINBAD:
            return False
    p = L
    for i in range(len(CLS)):
        n = _lens()[i]
        for c in cps[p:p + n]:
            k = CLS[i]
            if k in ("quo", "quo_esc", "quo_nl"):
                if c in (34, 92, 10, 13): return False
            elif k == "bra":
                if c in (93, 10, 13): return False
            elif k == "ref":
                if c in hc.PLAINBAD or c in (123, 125, 36): return False
            else:
                if c in hc.PLAINBAD: return False
        p += n
    return cps[p] != 10 and cps[p] != 13


def _text(k, x):
    if k == "quo": return (Q + x + Q, hc.QUO)
    if k == "quo_esc": return (Q + x + BS + Q + Q, hc.QUO)
    if k == "quo_nl": return (Q + x + BS + "n" + BS + "t" + BS + BS + Q, hc.QUO)      # the escape sequences \n \t \\ stay as written
    if k == "quo_empty": return (Q + Q, hc.QUO)
    if k == "unq_esc": return (x + BS + Q, hc.UNQ)
    if k == "bra": return ("[[" + x + "]]", hc.BRA)
    if k == "ref": return ("${" + x + "}", hc.UNQ)
    if k == "id": return (x, hc.ID)
    return (x, hc.UNQ)


def check(cps: $$CPS$$) -> bool:
    """
    pre: _ok(cps)
    post: _
    """
    pc = hc.Pieces(cps)
    name = pc.take(L)
    vals = [_text(CLS[i], pc.take(_lens()[i])) for i in range(len(CLS))]
    d = pc.take(1)
    block = hc.canon_block("", [d]) if DOCUMENTED else None
    cleaned = d + chr(10)
    if CMD == "option_twice":
        # two option() commands, the second undocumented and named by its own symbolic text (it may repeat the first name):
        # every option() yields its own entry, documented or not, at any position
        name2 = vals[-1][0]
        first = [(t, x) for (x, t) in vals[:-1]]
        cmds = [prog.cmd("option", [(hc.ID, name)] + first, block, cleaned), prog.cmd("if", ["WIN32"]),
                prog.cmd("option", [(hc.ID, name2), (hc.QUO, Q + "other help" + Q), (hc.ID, "ON")]), prog.cmd("endif", [])]
        got = prog.real_page(cmds, Settings())
        return hc.report(got == prog.spec_page(cmds), cps=cps)
    if CMD == "set_twice":
        # the same variable documented twice (second value = last symbolic value, its name may repeat the first): two entries, each
        # with its own value
        name2 = vals[-1][0]
        first = [(t, x) for (x, t) in vals[:-1]]
        cmds = [prog.cmd("set", [(hc.ID, name)] + first, block, cleaned),
                prog.cmd("set", [(hc.ID, name2), (hc.QUO, Q + "second" + Q)], hc.canon_block("", ["e"]), "e" + chr(10))]
        got = prog.real_page(cmds, Settings())
        return hc.report(got == prog.spec_page(cmds), cps=cps)
    cmds = [prog.cmd(CMD, [(hc.ID, name)] + [(t, x) for (x, t) in vals], block, cleaned)]
    got = prog.real_page(cmds, Settings())
    st = delta.State()
    args = [name] + [x for (x, t) in vals]
    if CMD == "set":
        if DOCUMENTED:
            quoted = len(CLS) == 1 and CLS[0] in ("quo", "quo_esc", "quo_nl", "quo_empty")
            st.entries.append(delta.spec_set(args, cleaned, quoted_single=quoted))
    else:
        delta.step(st, DOCUMENTED, cleaned if DOCUMENTED else "", "option", args)
    if CMD == "set" and DOCUMENTED and len(CLS) == 0:
        head = spec.heading("T", "#") + spec.r_module("m", "") + chr(10) + ".. data:: " + name + chr(10) + chr(10) + spec.para(1, cleaned) + chr(10) + "   :Default value: "
        ok = got.startswith(head) and got.endswith(chr(10) + chr(10) + "   :type: UNSET" + chr(10) + chr(10))
    else:
        ok = got == delta.render_page(st, "T", "#", "m")
    return hc.report(ok, cps=cps)
