"""L5 harness: real cminx.document / document_single_file on a virtual file system, against the oracle spec_tree.
Serves C13, C14, C15, C18 (MODE 'tree' / 'stdout'), C17.a (MODE 'rel'), C06.d (MODE 'fail'), C12/C17.c lone file (MODE 'file')."""
import hc
import posixpath as pp
from typing import List
import cminx
import cminx.rstwriter as rw
from cminx.config import Settings
import vfslib
from vfslib import VFS

SKEL = @@SKEL@@            # (name, [sub-skeletons], [file names]); shard constant
MODE = @@MODE@@
FIXP = @@FIXP@@            # True: every skeleton entry is present (presence not symbolic in this shard)
FIXEXCL = @@FIXEXCL@@      # True: the matcher excludes nothing (verdicts not symbolic in this shard)
FIXREV = @@FIXREV@@        # True: listing order as written (not symbolic in this shard)
FIX = @@FIX@@              # argument name -> fixed value (absent: symbolic)
PREFIXES = @@PREFIXES@@    # menu of explicit prefixes chosen by `which` when has_prefix (e.g. one that ends with the separator)
SUBTRACT = @@SUBTRACT@@    # ids of known findings whose input region is subtracted from this obligation (normally empty)
BASE = "/w/in"
# what the patterns mean is the matcher's business (a symbolic verdict per path here); CMinx's part is to hand them over as given
PATTERNS = ["/w/in/**/t*/", "name", "!keep.cmake", "sub/x.cmake", " spaced "]
OUTS = ["/w/out", "/w/in/docs", "/w", "out"]      # absolute elsewhere, nested in the input tree, parent of it, relative to cwd
ENTS = vfslib.flatten(SKEL, BASE)
NE = len(ENTS)
ND = 1 + sum(1 for e in ENTS if e[1])
FILES = [e[0] for e in ENTS if not e[1]]
vfslib.install()
hc.install_set_model()      # C17: iteration order of sets built inside cminx is chosen by the harness (hash-seed model)
hc.quiet_logging()


def _eff(present, excl, rev):
    """lists that are fixed in this shard are not symbolic arguments at all (they are passed empty): every symbolic list element
    costs CrossHair a failed precondition path per value"""
    return ([True] * NE if FIXP else present, [False] * NE if FIXEXCL else excl, [False] * ND if FIXREV else rev)


def _lens_ok(present, excl, rev) -> bool:
    return len(present) == (0 if FIXP else NE) and len(excl) == (0 if FIXEXCL else NE) and len(rev) == (0 if FIXREV else ND)


def _tree(present, excl, rev, excl_root):
    present, excl, rev = _eff(present, excl, rev)
    dirs, ents, alldirs = vfslib.materialise(SKEL, BASE, present, rev)
    excluded = {BASE: excl_root}
    for i in range(NE):
        excluded[ENTS[i][0]] = excl[i]
    return dirs, excluded


def _tree2(present, excl, rev2, excl_root):
    """the same tree listed in the order given by rev2 (always symbolic in 'rel' mode)"""
    present, excl, _ = _eff(present, excl, [])
    dirs, ents, alldirs = vfslib.materialise(SKEL, BASE, present, rev2)
    excluded = {BASE: excl_root}
    for i in range(NE):
        excluded[ENTS[i][0]] = excl[i]
    return dirs, excluded


def _wf(present: List[bool], excl: List[bool], rev: List[bool], excl_root: bool, auto_ex: bool) -> bool:
    """the properties' own quantifier: with auto-exclusion on, the input directory holds a (non-excluded) .cmake file and
    mixed-case extensions sit next to at least one lower-case .cmake file"""
    if not _lens_ok(present, excl, rev):
        return False
    if not auto_ex:
        return True
    dirs, excluded = _tree(present, excl, rev, excl_root)
    for d in dirs:
        cm = [f for f in dirs[d][1] if vfslib.is_cmake(f) and not excluded.get(pp.join(d, f), False)]
        low = [f for f in cm if f.endswith(".cmake")]
        if d == BASE and len(low) == 0:
            return False
        if len(cm) > 0 and len(low) == 0:
            return False
    return True


def _fixed(vals) -> bool:
    for k in FIX:
        if vals[k] != FIX[k]:
            return False
    return True


def _wf_root(present, excl, rev, excl_root, auto_ex) -> bool:
    """closure mode goes beyond the quantifier only in one respect: sub-directories may hold mixed-case *.CMAKE files without a
    lower-case sibling. The input directory itself still holds a non-excluded .cmake file when auto-exclusion is on."""
    if not _lens_ok(present, excl, rev):
        return False
    if not auto_ex:
        return True
    dirs, excluded = _tree(present, excl, rev, excl_root)
    return any(f.endswith(".cmake") and not excluded.get(pp.join(BASE, f), False) for f in dirs[BASE][1])


_PFX = ["P"]


def _settings(out, recursive, auto_ex, has_prefix, sep2, ext_t, ext_m):
    s = Settings()
    s.output.directory = out
    s.input.recursive = recursive
    s.input.auto_exclude_directories_without_cmake = auto_ex
    s.rst.prefix = _PFX[0] if has_prefix else None
    s.rst.module_path_separator = "::" if sep2 else "."
    s.rst.file_extensions_in_titles = ext_t
    s.rst.file_extensions_in_modules = ext_m
    s.input.exclude_filters = list(PATTERNS)
    return s


def _page_text(settings, file, title, module):
    w = rw.RSTWriter("T", settings=settings)
    w.text("PAGE " + str(file) + " | " + str(title) + " | " + str(module))
    return str(w)


def _run(inp, settings):
    try:
        cminx.document(inp, settings)
    except SystemExit:
        return "exit"
    return "ok"


def _compare_tree(settings, dirs, excluded, out, recursive, auto_ex, has_prefix, sep2, ext_t, ext_m, base=BASE):
    sep = "::" if sep2 else "."
    prefix = _PFX[0] if has_prefix else pp.basename(base)
    outabs = None if out is None else pp.normpath(pp.join(VFS.cwd, out))
    pages, indexes, order = vfslib.spec_tree(dirs, excluded, base, outabs, recursive, auto_ex, prefix, sep, ext_t, ext_m)
    for pl in VFS.patterns:
        if pl != PATTERNS:
            return False                 # the exclude patterns reach the gitignore matcher verbatim, in order
    # the matcher is asked with the directory form for directories, the plain form for files
    for a in VFS.asked:
        k = pp.normpath(pp.join(VFS.cwd, a))
        if (k in dirs) != a.endswith("/"):
            return False
    # every Documenter construction is for an expected file, with the expected title / module name, once
    docs = {}
    for (f, t, m) in VFS.docs:
        if f in docs:
            return False
        docs[f] = (t, m)
    exp_docs = {v[0]: (v[1], v[2]) for v in pages.values()}
    if set(docs) != set(exp_docs):
        return False
    for f in docs:
        if f.endswith(".cmake") and docs[f] != exp_docs[f]:
            return False
    if out is None:
        if VFS.writes or VFS.mkdirs:
            return False
        # stdout: exactly the pages, each followed by one empty line; sorted by name within a directory
        got = list(VFS.prints)
        exp_by_dir = [[_page_text(settings, pp.join(d, f), docs[pp.join(d, f)][0], docs[pp.join(d, f)][1]) + "\n\n" for f in files]
                      for (d, files) in order]
        flat = [x for grp in exp_by_dir for x in grp]
        if sorted(got) != sorted(flat):
            return False
        pos = 0
        for grp in exp_by_dir:          # within each directory the printed order is the sorted order
            idx = [got.index(x) for x in grp]
            if idx != sorted(idx):
                return False
        return True
    if VFS.prints:
        return False
    got = {}
    for (p, text) in VFS.writes:
        if p in got:
            return False                 # a path written twice
        got[p] = text
    for p in list(got) + list(VFS.mkdirs):
        if not (p == outabs or p.startswith(outabs.rstrip("/") + "/")):
            return False                 # an effect outside the output directory
    if set(got) != set(pages) | set(indexes):
        return False
    for p, (f, t, m) in pages.items():
        if got[p] != _page_text(settings, f, docs[f][0], docs[f][1]):
            return False
    for p, (title, toc) in indexes.items():
        gt, gtoc, ok = vfslib.parse_index(got[p])
        if not ok or gt != title or gtoc != toc:
            return False
    return True


def check(present: List[bool], excl: List[bool], rev: List[bool], excl_root: bool, recursive: bool, auto_ex: bool,
          has_prefix: bool, sep2: bool, out_i: int, ext_t: bool, ext_m: bool, which: int, rev2: List[bool], cwd2: bool, relv: bool, relv2: bool) -> bool:
    """
    pre: _wf(present, excl, rev, excl_root, auto_ex) or (MODE == "closure" and _wf_root(present, excl, rev, excl_root, auto_ex))
    pre: _fixed(dict(recursive=recursive, auto_ex=auto_ex, has_prefix=has_prefix, sep2=sep2, out_i=out_i, ext_t=ext_t, ext_m=ext_m, excl_root=excl_root))
    pre: 0 <= out_i < len(OUTS) and (MODE not in ("file", "fail") or 0 <= which < max(1, len(FILES)))
    pre: (len(rev2) == ND) if MODE == "rel" else (len(rev2) == 0 and (MODE == "hist" or not cwd2))
    pre: MODE in ("file", "fail") or (0 <= which < len(PREFIXES) and (has_prefix or which == 0))
    post: _
    """
    dirs, excluded = _tree(present, excl, rev, excl_root)
    out = None if MODE == "stdout" else OUTS[out_i]
    settings = _settings(out, recursive, auto_ex, has_prefix, sep2, ext_t, ext_m)
    _PFX[0] = PREFIXES[which] if MODE not in ("file", "fail") else "P"
    settings.rst.prefix = _PFX[0] if has_prefix else None
    VFS.reset(dirs, excluded)
    VFS.rel_verdict = relv        # read only if the code under test asks the matcher about a non-absolute path
    VFS.rel_verdict2 = relv2
    args = dict(relv=relv, relv2=relv2, present=present, excl=excl, rev=rev, excl_root=excl_root, recursive=recursive, auto_ex=auto_ex,
                has_prefix=has_prefix, sep2=sep2, out_i=out_i, ext_t=ext_t, ext_m=ext_m, which=which, rev2=rev2, cwd2=cwd2)
    if MODE in ("tree", "stdout"):
        _run(BASE, settings)
        return hc.report(_compare_tree(settings, dirs, excluded, out, recursive, auto_ex, has_prefix, sep2, ext_t, ext_m), **args)
    if MODE == "link":
        # the input path is a symbolic link to the tree (api -> cmake_modules): everything is named after the path as given -- default
        # prefix, index titles, page titles, the spelling the matcher is asked about -- never after the link's target
        LNK = "/w/lnk"
        dirs_l, excl_l = {}, {}
        for k_ in dirs:
            dirs_l[LNK + k_[len(BASE):]] = dirs[k_]
        for k_ in excluded:
            excl_l[LNK + k_[len(BASE):]] = excluded[k_]
        VFS.reset(dirs, excl_l)
        VFS.links = {LNK: BASE}
        VFS.rel_verdict = relv
        VFS.rel_verdict2 = relv2
        _run(LNK, settings)
        return hc.report(_compare_tree(settings, dirs_l, excl_l, out, recursive, auto_ex, has_prefix, sep2, ext_t, ext_m, base=LNK), **args)
    if MODE == "symdir":
        # a symbolic link to a sibling directory inside the tree, links not followed (the default): the link is not walked, so it is
        # not a processed directory -- no toctree entry, no pages
        subs0 = dirs[BASE][0]
        if len(subs0) == 0:
            return True
        target = pp.join(BASE, subs0[0])
        alias = pp.join(BASE, "alias")
        real_dirs = dict(dirs)
        real_dirs[BASE] = (list(subs0) + ["alias"], dirs[BASE][1])
        spec_dirs = dict(dirs)
        spec_dirs[alias] = dirs[target]          # known to be a directory (the matcher is asked about it in directory form), never listed
        links = {alias: target}
        if len(subs0) > 1:
            # a second link one level down (inside the last subdirectory, to the first one)
            host = pp.join(BASE, subs0[-1])
            alias2 = pp.join(host, "alias2")
            real_dirs[host] = (list(dirs[host][0]) + ["alias2"], dirs[host][1])
            spec_dirs[alias2] = dirs[target]
            links[alias2] = target
        VFS.reset(real_dirs, excluded)
        VFS.links = links
        VFS.rel_verdict = relv
        VFS.rel_verdict2 = relv2
        _run(BASE, settings)
        return hc.report(_compare_tree(settings, spec_dirs, excluded, out, recursive, auto_ex, has_prefix, sep2, ext_t, ext_m), **args)
    if MODE == "symrel":
        # C17: a directory reachable under two names (a symbolic link to a sibling, links followed): the generated files do not depend on
        # which of the two names the directory listing reports first
        subs0 = dirs[BASE][0]
        if len(subs0) == 0:
            return True
        target = pp.join(BASE, subs0[0])
        alias = pp.join(BASE, "alias")
        outs = []
        for order in (list(subs0) + ["alias"], ["alias"] + list(subs0)):
            real_dirs = dict(dirs)
            real_dirs[BASE] = (order, dirs[BASE][1])
            VFS.reset(real_dirs, excluded)
            VFS.links = {alias: target}
            s2 = _settings(out, recursive, auto_ex, has_prefix, sep2, ext_t, ext_m)
            s2.input.follow_symlinks = True
            _run(BASE, s2)
            outs.append(sorted(VFS.writes))
        return hc.report(outs[0] == outs[1], **args)
    if MODE == "rel":
        # C17.a: same contents, other listing order / other working directory / relative input path => same files
        _run(BASE, settings)
        w1 = sorted(VFS.writes)
        dirs2, _ = _tree2(present, excl, rev2, excl_root)
        VFS.reset(dirs2, excluded, cwd="/w/in" if cwd2 else "/w/cwd")
        s2 = _settings(out, recursive, auto_ex, has_prefix, sep2, ext_t, ext_m)
        if cwd2:
            s2.output.directory = pp.normpath(pp.join("/w/cwd", out))      # same absolute output directory
        hc.VSet.rev = True          # ... and under the other set-iteration order (hash seed)
        _run("." if cwd2 else BASE, s2)
        hc.VSet.rev = False
        w2 = sorted(VFS.writes)
        return hc.report(w1 == w2, **args)
    if MODE == "hist":
        # C17: documenting another input BEFORE, in the same run with the same Settings object (as main() does), changes nothing
        _run(BASE, settings)
        w1 = sorted(VFS.writes)
        dirs2 = dict(dirs)
        dirs2["/w/other"] = (["sub"], ["o.cmake"])
        dirs2["/w/other/sub"] = ([], ["p.cmake"])
        dirs2["/w"] = (["other"], ["lone.cmake"])
        VFS.reset(dirs2, excluded)
        s2 = _settings(out, recursive, auto_ex, has_prefix, sep2, ext_t, ext_m)
        _run("/w/other" if cwd2 else "/w/lone.cmake", s2)
        VFS.writes, VFS.mkdirs, VFS.prints, VFS.docs, VFS.asked = [], [], [], [], []
        _run(BASE, s2)
        w2 = sorted(VFS.writes)
        return hc.report(w1 == w2, **args)
    if MODE == "closure":
        # beyond the quantifier (any tree): whatever is processed, the toctrees are closed and complete
        _run(BASE, settings)
        written = {}
        for (p, text) in VFS.writes:
            written[p] = text
        ok = True
        referenced = set()
        for p in written:
            if p.endswith("/index.rst"):
                title, toc, fine = vfslib.parse_index(written[p])
                ok = ok and fine
                d = pp.dirname(p)
                for e in toc:
                    target = pp.join(d, e) if e.endswith("/index.rst") else pp.join(d, e + ".rst")
                    referenced.add(target)
                    ok = ok and target in written               # no toctree entry lacks a generated target
        outabs = pp.normpath(pp.join(VFS.cwd, out))
        for p in written:
            if p != pp.join(outabs, "index.rst"):
                ok = ok and p in referenced                     # every generated page is reachable
        return hc.report(ok, **args)
    if MODE == "file":
        # lone input file: title / module name = base name (with prefix and separator when a prefix is configured)
        f = FILES[which]
        if not pp.dirname(f) in dirs or pp.basename(f) not in dirs[pp.dirname(f)][1] or not f.endswith(".cmake"):
            return hc.report(True, **args)
        settings.rst.prefix = "P" if has_prefix else None
        _run(f, settings)
        if excluded.get(f, False):
            return hc.report(not VFS.writes and not VFS.docs and not VFS.mkdirs, **args)
        sep = "::" if sep2 else "."
        name = ("P" + sep if has_prefix else "") + pp.basename(f)
        t = name if ext_t else name[:-6]
        m = name if ext_m else name[:-6]
        outabs = pp.normpath(pp.join(VFS.cwd, out))
        ok = VFS.docs == [(f, t, m)] and [p for (p, _) in VFS.writes] == [pp.join(outabs, vfslib.stem(pp.basename(f)) + ".rst")]
        return hc.report(ok, **args)
    if MODE == "fail":
        # C06.d: a file whose processing raises => the exception leaves document(), nothing is written/printed for that file
        if not FILES:
            return hc.report(True, **args)
        f = FILES[which]
        VFS.fail_on = f
        raised = False
        try:
            cminx.document(BASE, settings)
        except SyntaxError:
            raised = True
        except SystemExit:
            pass
        constructed = any(d[0] == f for d in VFS.docs)
        stemf = pp.join(pp.dirname(pp.relpath(f, BASE)), vfslib.stem(pp.basename(f)) + ".rst")
        wrote = any(p.endswith("/" + stemf) for (p, _) in VFS.writes) or any(("PAGE " + f + " ") in x for x in VFS.prints)
        return hc.report((raised == constructed) and not wrote, **args)
    return hc.report(False, **args)
