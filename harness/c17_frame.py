"""C17.b frame lemma: documenting a file (any command kind, documented or not, any header list / prefix settings) leaves the
process-global state untouched: RSTWriter.heading_level_chars, the default-argument Settings instances of the constructors,
and the Settings object that was passed in. With 'a new Documenter/Aggregator/Writer per file' (C17.a) this gives independence
of what was documented before or after in the same run. Also: processing the same commands twice gives the same page."""
import hc, prog, copy, inspect
from typing import List, Tuple
from cminx.config import Settings
from cminx.rstwriter import RSTWriter, Directive
from cminx.aggregator import DocumentationAggregator
from cminx.documenter import Documenter

KINDS = @@KINDS@@
K1 = @@K1@@            # kind index of the first command (shard constant)
hc.shim_re("real")
hc.quiet_logging()
hc.install_set_model()


def _defaults():
    out = []
    for f in (RSTWriter.__init__, Directive.__init__, DocumentationAggregator.__init__, Documenter.__init__):
        for p in inspect.signature(f).parameters.values():
            if isinstance(p.default, Settings):
                out.append(p.default)
    return out


def check(k1: int, k2: int, d1: bool, d2: bool, hdr: Tuple[int, int], custom_headers: bool, tc: Tuple[int, int]) -> bool:
    """
    pre: k1 == K1 and 0 <= k2 < len(KINDS) and hc.cps_ok(hdr, bad=(10,)) and hc.cps_ok(tc, bad=(10,))
    post: _
    """
    glob0 = list(RSTWriter.heading_level_chars)
    defs0 = [copy.deepcopy(x) for x in _defaults()]
    s = Settings()
    if custom_headers:
        s.rst.headers = [chr(hdr[0]), chr(hdr[1])]
    s0 = copy.deepcopy(s)
    block = hc.canon_block("", ["d"])
    u1 = prog.documented_unit(KINDS[k1], block if d1 else None, "d" + chr(10), "1")
    u2 = prog.documented_unit(KINDS[k2], block if d2 else None, "d" + chr(10), "2")
    title = hc.S(tc)
    p1 = prog.real_page(u1 + u2, s, title=title)
    ok = s == s0 and list(RSTWriter.heading_level_chars) == glob0
    cur = _defaults()
    for i in range(len(cur)):
        ok = ok and cur[i] == defs0[i]
    # a second, unrelated file in between, then the same file again: same page
    prog.real_page(u2, Settings(), title="other")
    hc.VSet.rev = True              # the other set-iteration order (hash-seed model)
    p2 = prog.real_page(u1 + u2, s, title=title)
    hc.VSet.rev = False
    return hc.report(ok and p1 == p2, k1=k1, k2=k2, d1=d1, d2=d2, hdr=hdr, custom_headers=custom_headers, tc=tc)
