"""C06.c: errors become exceptions. For the real Documenter object, BOTH the lexer's and the parser's error-listener dispatch
raise for every (line, column, msg, exception-or-None) an ANTLR recogniser may report."""
import hc, prog
import cminx.documenter as D
from cminx.config import Settings
from antlr4.error.Errors import RecognitionException, LexerNoViableAltException, InputMismatchException

hc.quiet_logging()
import sys


class _Null:                         # ANTLR's ConsoleErrorListener prints; output formatting is not the subject (empty body)
    def write(self, s): return 0
    def flush(self): pass


sys.stderr = _Null()
import antlr4.error.ErrorListener as _EL
_EL.print = lambda *a, **k: None     # the builtin print is C code: it would realise the symbolic message value by value


def check(line: int, column: int, msg: str, has_e: bool, which: int) -> bool:
    """
    pre: 0 <= which <= 1 and len(msg) <= 3 and 0 <= line <= 3 and 0 <= column <= 3
    post: _
    """
    doc = prog.real_documenter(Settings())
    rec = doc.lexer if which == 0 else doc.parser
    e = None
    if has_e:
        e = RecognitionException(message=msg, recognizer=rec, input=None, ctx=None)
    raised = False
    try:
        rec.getErrorListenerDispatch().syntaxError(rec, None, line, column, msg, e)
    except Exception:
        raised = True
    return hc.report(raised, line=line, column=column, msg=msg, has_e=has_e, which=which)
