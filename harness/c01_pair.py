"""C01.c: pairing + emission. Two adjacent documented commands of shard-constant kinds; the whole page is compared with
spec_render by ONE equality: each doc line occurs once, in order, inside its own entry's directive, at that directive's depth."""
import hc, prog
from typing import List, Tuple
from cminx.config import Settings

K1 = @@K1@@
K2 = @@K2@@
LENS1 = @@LENS1@@    # length of every doc line of the first / second doccomment (0 = empty line, written as the bare '#')
LENS2 = @@LENS2@@
IND = @@IND@@        # indentation of the first block (concrete here; symbolic indentation is C01.a's subject)
hc.shim_re("real")
hc.quiet_logging()


NCP = @@NCP@@        # sum(LENS1) + sum(LENS2)
PAD = @@PAD@@        # concrete filler appended to every non-empty doc line (long lines)


def check(cps: $$CPS$$) -> bool:
    """
    pre: hc.cps_ok(cps, bad=(10, 13))
    post: _
    """
    pc = hc.Pieces(cps)
    t = [pc.take(n) + (("y" * PAD) if (PAD and n) else "") for n in LENS1]
    u = [pc.take(n) + (("y" * PAD) if (PAD and n) else "") for n in LENS2]
    for x in t + u:
        if "]]" in x:
            return True          # outside the canonical form
    b1 = hc.canon_block(IND, t); c1 = "".join(x + chr(10) for x in t)
    b2 = hc.canon_block("", u); c2 = "".join(x + chr(10) for x in u)
    cmds = prog.documented_unit(K1, b1, c1, "1") + prog.documented_unit(K2, b2, c2, "2")
    got = prog.real_page(cmds, Settings())
    exp = prog.spec_page(cmds)
    return hc.report(got == exp, cps=cps)
