"""C01.c: pairing + emission. Two adjacent documented commands of shard-constant kinds; the whole page is compared with
spec_render by ONE equality: each doc line occurs once, in order, inside its own entry's directive, at that directive's depth."""
import hc, prog
from typing import List, Tuple
from cminx.config import Settings

K1 = @@K1@@
K2 = @@K2@@
N1 = @@N1@@          # number of doc lines of the first / second doccomment
N2 = @@N2@@
L = @@L@@            # exact length of each doc line text (shard constant)
IND = @@IND@@        # indentation of the first block (concrete here; symbolic indentation is C01.a's subject)
hc.shim_re("real")
hc.quiet_logging()


NCP = @@NCP@@        # (N1 + N2) * L


def check(cps: $$CPS$$) -> bool:
    """
    pre: hc.cps_ok(cps, bad=(10, 13))
    post: _
    """
    pc = hc.Pieces(cps)
    t = [pc.take(L) for _ in range(N1)]
    u = [pc.take(L) for _ in range(N2)]
    for x in t + u:
        if "]]" in x:
            return True          # outside the canonical form
    b1 = hc.canon_block(IND, t); c1 = "".join(x + chr(10) for x in t)
    b2 = hc.canon_block("", u); c2 = "".join(x + chr(10) for x in u)
    cmds = prog.documented_unit(K1, b1, c1, "1") + prog.documented_unit(K2, b2, c2, "2")
    got = prog.real_page(cmds, Settings())
    exp = prog.spec_page(cmds)
    return hc.report(got == exp, cps=cps)
