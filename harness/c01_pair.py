"""C01.c: pairing + emission. Two adjacent documented commands of shard-constant kinds; the whole page is compared with
spec_render by ONE equality: each doc line occurs once, in order, inside its own entry's directive, at that directive's depth."""
import hc, prog
from typing import List, Tuple
from cminx.config import Settings

K1 = @@K1@@
K2 = @@K2@@
LENS1 = @@LENS1@@    # length of every doc line of the first / second doccomment (0 = empty line, written as the bare '#')
LENS2 = @@LENS2@@
IND = @@IND@@        # indentation of the first block (concrete here; symbolic indentation is C01.a's subject)
hc.shim_re("real")
hc.quiet_logging()


NCP = @@NCP@@        # sum(LENS1) + sum(LENS2)
PAD = @@PAD@@        # concrete filler appended to every non-empty doc line (long lines)


def check(cps: $$CPS$$) -> bool:
    """
    pre: hc.cps_ok(cps, bad=(10, 13))
    post: _
    """
    pc = hc.Pieces(cps)
    t = [pc.take(n) + (("y" * PAD) if (PAD and n) else "") for n in LENS1]
    u = [pc.take(n) + (("y" * PAD) if (PAD and n) else "") for n in LENS2]
    for x in t + u:
        if "]]" in x:
            return True          # outside the canonical form
    b1 = hc.canon_block(IND, t); c1 = "".join(x + chr(10) for x in t)
    b2 = hc.canon_block("", u); c2 = "".join(x + chr(10) for x in u)
    if K1.endswith("!"):
        # the second documented command (a definition) follows a DECLARATION that still waits for its implementing definition. Which
        # entries that yields is not what C01 is about (and scoped out of C02/C03); C01's clause is: both doccomment texts reach the
        # page, each line once and in order, indented as one paragraph of a directive
        import spec
        unit = prog.documented_unit(K1[:-1], b1, c1, "1")
        k = next(i for i, c_ in enumerate(unit) if c_[0] is not None)
        cmds = unit[:k + 1] + prog.documented_unit(K2, b2, c2, "2") + [c_ for c_ in unit[k + 1:] if c_[2] in ("cpp_end_class",)]
        got = prog.real_page(cmds, Settings())
        ok = (chr(10) + spec.para(1, c1) in got or chr(10) + spec.para(2, c1) in got) and (chr(10) + spec.para(1, c2) in got or chr(10) + spec.para(2, c2) in got)
        if K1 in ("cpp_member!", "cpp_constructor!"):
            # C09's clause for the same situation: the member's signature shows the parameters of the definition that follows its
            # declaration (without name and self), with the macro note iff that definition is a macro
            mname = "m" if K1 == "cpp_member!" else "CTOR"
            impl = prog.documented_unit(K2, b2, c2, "2")[0]
            params = [a_[1] for a_ in impl[3][2:]]
            ok = ok and (chr(10) + "   .. py:method:: " + mname + "(" + ", ".join(params) + ")" + chr(10)) in got
            ok = ok and ((spec.SENT["method_macro"] in got) == (K2 == "macro"))
        return hc.report(ok, cps=cps)
    cmds = prog.documented_unit(K1, b1, c1, "1") + prog.documented_unit(K2, b2, c2, "2")
    got = prog.real_page(cmds, Settings())
    exp = prog.spec_page(cmds)
    return hc.report(got == exp, cps=cps)
