"""C01.e / C05.a: the decoding done by Documenter.__init__ (FileStream) on the UTF-8 bytes of an arbitrary text."""
import hc, io, builtins
import cminx.documenter as D
from cminx.config import Settings

L = @@L@@
hc.quiet_logging()


def check(s: str) -> bool:
    """
    pre: len(s) <= L
    post: _
    """
    data = s.encode("utf-8")
    real_open = builtins.open
    builtins.open = lambda *a, **k: io.BytesIO(data)
    try:
        try:
            doc = D.Documenter("x.cmake", "T", "m", Settings())
            ok = doc.input_stream.strdata == s
        except Exception:
            ok = False
    finally:
        builtins.open = real_open
    return hc.report(ok, s=s)
