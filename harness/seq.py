"""Bounded whole-sequence harness (C02.e, C03.c, C08.b, C09.c): N commands from the initial state, kinds chosen symbolically,
real walker over the whole tree + real rendering, against delta folded over the sequence + spec_render (one equality)."""
import hc, prog, delta
from typing import List, Tuple
from cminx.config import Settings

KINDS = @@KINDS@@        # command kinds available in this shard
FIRST = @@FIRST@@        # indexes (into KINDS) fixed for the first commands of the sequence (shard constant prefix)
N = @@N@@                # sequence length
SYMFLAGS = @@SYMFLAGS@@  # symbolic include_undocumented_* flags (C08.b)
PREFIX = @@PREFIX@@      # concrete (kind, documented) commands placed before the symbolic ones: long files at no path cost
FREE = @@FREE@@          # free regex shim with three distinct strip patterns (C03.c): re.sub(p, "", s) is the opaque term <p|s>
_shim = hc.shim_re("free" if FREE else "real")
PATS = {"function": "PF", "macro": "PM", "member": "PX"}
hc.quiet_logging()
ARGS = {
    "function": ["f", "a", "b"], "macro": ["g", "a"], "endfunction": [], "endmacro": [], "cmake_parse_arguments": ["x", "y"],
    "set": ["V", "v"], "option": ["O", "help", "ON"], "cpp_class": ["K", "B"], "cpp_end_class": [],
    "cpp_attr": ["K", "at", "dv"], "cpp_member": ["m", "K", "int", "str"], "cpp_constructor": ["CTOR", "K", "int"],
    "ct_add_test": ["NAME", "t"], "ct_add_section": ["NAME", "s", "EXPECTFAIL"], "add_test": ["NAME", "ct", "COMMAND", "x"],
    "message": ["hi"], "if": ["A"], "endif": [],
}
DOC = hc.canon_block("", ["d"])


def _wf(ks, docs) -> bool:
    """well-formed prefix of a module (the property's quantifier)"""
    if len(ks) != N or len(docs) != N:
        return False
    for i in range(len(FIRST)):
        if ks[i] != FIRST[i]:
            return False
    defs = []        # "function" | "macro"
    classes = 0
    pending = False
    for i in range(N):
        if not (0 <= ks[i] < len(KINDS)):
            return False
        k = KINDS[ks[i]]
        d = docs[i]
        if d and k in ("endfunction", "endmacro", "cpp_end_class", "cmake_parse_arguments", "endif"):
            return False
        if pending:
            if k not in ("function", "macro"):
                return False          # (the implementing definition may carry a doccomment of its own)
            pending = False
            defs.append(k)
            continue
        if k in ("function", "macro"):
            defs.append(k)
        elif k == "endfunction":
            if not defs or defs[-1] != "function": return False
            defs.pop()
        elif k == "endmacro":
            if not defs or defs[-1] != "macro": return False
            defs.pop()
        elif k == "cpp_class":
            classes += 1
        elif k == "cpp_end_class":
            if classes == 0: return False
            classes -= 1
        elif k in ("cpp_attr", "cpp_member", "cpp_constructor"):
            if classes == 0: return False
            if k != "cpp_attr": pending = True
        elif k in ("ct_add_test", "ct_add_section"):
            pending = True
    return not pending


def _lines_ok(lines, docs) -> bool:
    """start lines as a lexer can assign them: the first item starts at line >= 1; an item starts on the line where the
    previous one ends or later (several commands may share a line; a documented item occupies 4 lines)"""
    if lines[0] < 1:
        return False
    for i in range(1, N):
        if lines[i] < lines[i - 1] + (3 if docs[i - 1] else 0):
            return False
    return True


def check(ks: $$KT$$, docs: $$DT$$, flags: List[bool], lines: $$KT$$) -> bool:
    """
    pre: _wf(ks, docs) and _lines_ok(lines, docs)
    pre: (len(flags) == 10) if SYMFLAGS else (len(flags) == 0)
    post: _
    """
    settings = Settings()
    fl = dict(delta.DEFAULT_FLAGS)
    if SYMFLAGS:
        for i in range(10):
            fl[delta.FLAG_KINDS[i]] = flags[i]
            setattr(settings.input, "include_undocumented_" + delta.FLAG_KINDS[i], flags[i])
        # with flags off, a member/test declaration may be hidden and its definition then is an ordinary one: delta models that
    strip = delta.no_strip
    if FREE:
        settings.input.function_parameter_name_strip_regex = PATS["function"]
        settings.input.macro_parameter_name_strip_regex = PATS["macro"]
        settings.input.member_parameter_name_strip_regex = PATS["member"]
        strip = lambda which, s: "<" + PATS[which] + "|" + s + ">"
    cmds = []
    j = 0
    for (pk, pd) in PREFIX:
        pa = list(ARGS[pk])
        if pa and pk not in ("ct_add_test", "ct_add_section", "add_test", "cmake_parse_arguments", "message", "if", "cpp_attr"):
            pa[0] = pa[0] + "p" + str(j)
        cmds.append(prog.cmd(pk, pa, DOC if pd else None, "d" + chr(10)))
        j += 1
    for i in range(N):
        k = KINDS[ks[i]]
        a = list(ARGS[k])
        if a and k not in ("ct_add_test", "ct_add_section", "add_test", "cmake_parse_arguments", "message", "if"):
            a[0] = a[0] + str(i) if k not in ("cpp_attr",) else a[0]
        cmds.append(prog.cmd(k, a, DOC if docs[i] else None, "d" + chr(10)))
    try:
        got = prog.real_page(cmds, settings, lines=([1 + 5 * q for q in range(len(PREFIX))] + [5 * len(PREFIX) + x for x in lines]))
    except Exception:
        return hc.report(False, ks=ks, docs=docs, flags=flags, lines=lines)
    exp = prog.spec_page(cmds, flags=fl, strip=strip)
    return hc.report(got == exp, ks=ks, docs=docs, flags=flags, lines=lines)
