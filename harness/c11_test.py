"""C11.a: ct_add_test / ct_add_section / add_test through the real aggregator and renderer.
Argument pattern is a shard constant over slots: 'NAME' (keyword), 'n' (the name, symbolic), 'EF' (EXPECTFAIL keyword), 'x' (symbolic other argument)."""
import hc, prog, delta
from typing import List, Tuple
from cminx.config import Settings

CMD = @@CMD@@
SLOTS = @@SLOTS@@
L = @@L@@
DOCUMENTED = @@DOCUMENTED@@
NCP = @@NCP@@           # L per 'n'/'x' slot, 2 L per 'g' slot
hc.shim_re("real")
hc.quiet_logging()


def check(cps: $$CPS$$) -> bool:
    """
    pre: hc.cps_ok(cps, bad=hc.PLAINBAD)
    post: _
    """
    pc = hc.Pieces(cps)
    args = []
    for s in SLOTS:
        if s == "NAME":
            args.append("NAME")
        elif s == "EF":
            args.append("EXPECTFAIL")
        elif s == "g":
            args.append([pc.take(L), pc.take(L)])
        else:
            x = pc.take(L)
            if x == "NAME" or x == "EXPECTFAIL":
                return True          # keywords appear only where the shard puts them (the quantifier's "further arguments")
            args.append(x)
    block = hc.canon_block("", ["d"]) if DOCUMENTED else None
    cmds = [prog.cmd(CMD, args, block, "d" + chr(10))]
    if CMD != "add_test":
        cmds += [prog.cmd("function", ["${impl}"]), prog.cmd("message", ["x"]), prog.cmd("endfunction", [])]
    got = prog.real_page(cmds, Settings())
    exp = prog.spec_page(cmds)
    return hc.report(got == exp, cps=cps)
