"""C01.a/b: DocumentationAggregator.clean_doc_lines on canonical (or leaderless) blocks."""
import hc
from typing import List, Tuple
from cminx.aggregator import DocumentationAggregator

N = @@N@@          # number of body lines (shard constant)
K = @@K@@          # max indent length
L = @@L@@          # max text length per line
LEADERLESS = @@LEADERLESS@@
NOSPACE = @@NOSPACE@@        # True: body lines are written '#' + text WITHOUT the optional space (text not starting with ' ', '#', '[' or ']'); "D22": the first text starts with '#', '[' or ']' (known finding)
FIRSTLINE = @@FIRSTLINE@@    # the first text stands on the opening line: '#[[[ text'
NCP = @@NCP@@      # N * L
PADIND = @@PADIND@@  # concrete prefix of the block indentation (deeply indented blocks), followed by the symbolic indent characters
PAD = @@PAD@@      # concrete filler inserted in the middle of every non-empty text: long lines at a concrete, large length


def _pre(cps, m, ind, km) -> bool:
    if not (0 <= km <= K) or not hc.cps_ok(cps, bad=(10, 13)):
        return False
    for c in ind:
        if c != 32 and c != 9:
            return False
    for x in m:
        if not (0 <= x <= L):
            return False
    return True


def _texts(cps, m):
    out = []
    for i in range(N):
        t = ""
        for k in range(L + 1):
            if m[i] == k:
                t = hc.S(cps[i * L:i * L + k])
                if PAD and k >= 2:
                    t = hc.S(cps[i * L:i * L + 1]) + ("x" * PAD) + hc.S(cps[i * L + 1:i * L + k])
        out.append(t)
    return out


def _letter(c) -> bool:
    return (97 <= c <= 122) or (65 <= c <= 90)


def check(cps: $$CPS$$, m: $$MT$$, ind: $$IT$$, km: int) -> bool:
    """
    pre: _pre(cps, m, ind, km)
    pre: (not FIRSTLINE) or m[0] >= 1
    pre: (NOSPACE is not True) or all(m[i] == 0 or (cps[i * L] != 32 and cps[i * L] != 35 and cps[i * L] != 91 and cps[i * L] != 93) for i in range(N))
    pre: (NOSPACE != "D22") or (m[0] >= 1 and (cps[0] == 35 or cps[0] == 91 or cps[0] == 93) and all(m[i] == 0 or cps[i * L] != 32 for i in range(N)))
    pre: (not LEADERLESS) or (km == 0 and all(m[i] >= 1 and _letter(cps[i * L]) for i in range(N)))
    post: _
    """
    texts = _texts(cps, m)
    for t in texts:
        if "]]" in t:
            return True          # outside the canonical form (no ']]' inside)
    indent = ""
    for k in range(K + 1):
        if km == k:
            indent = PADIND + hc.S(ind[:k])
    if LEADERLESS:
        lines = ["#[[["] + list(texts) + ["#]]"]
    elif FIRSTLINE:
        lines = hc.canon_lines(indent, texts[1:])
        lines[0] = "#[[[ " + texts[0]
    elif NOSPACE:
        lines = ["#[[["] + [indent + "#" + t for t in texts] + [indent + "#]]"]
    else:
        lines = hc.canon_lines(indent, texts)
    got = DocumentationAggregator.clean_doc_lines(lines)
    exp = "".join(t + chr(10) for t in texts)
    return hc.report(got == exp, cps=cps, m=m, ind=ind, km=km)
