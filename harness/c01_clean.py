"""C01.a/b: DocumentationAggregator.clean_doc_lines on canonical (or leaderless) blocks."""
import hc
from typing import List
from cminx.aggregator import DocumentationAggregator

N = @@N@@          # number of body lines (shard constant)
K = @@K@@          # max indent length
L = @@L@@          # max text length per line
LEADERLESS = @@LEADERLESS@@


def _ok_text(t: str) -> bool:
    return chr(10) not in t and chr(13) not in t and "]]" not in t


def _letter(c: str) -> bool:
    return ("a" <= c <= "z") or ("A" <= c <= "Z")


def check(ind: str, texts: List[str]) -> bool:
    """
    pre: len(ind) <= K and all(c == " " or c == chr(9) for c in ind)
    pre: len(texts) == N and all(len(t) <= L and _ok_text(t) for t in texts)
    pre: (not LEADERLESS) or (len(ind) == 0 and all(len(t) >= 1 and _letter(t[0]) for t in texts))
    post: _
    """
    if LEADERLESS:
        lines = ["#[[["] + list(texts) + ["#]]"]
    else:
        lines = hc.canon_lines(ind, texts)
    got = DocumentationAggregator.clean_doc_lines(lines)
    exp = "".join(t + chr(10) for t in texts)
    return hc.report(got == exp, ind=ind, texts=texts)
