"""C20.a: documents built through the public RSTWriter API (construction script = shard constant, every text piece symbolic)
are serialised exactly as spec_render says, repeatably, without changing the document; title framing follows title changes."""
import hc, spec
from typing import List, Tuple
from cminx.rstwriter import RSTWriter
from cminx.config import Settings

SCRIPT = @@SCRIPT@@      # list of nodes: ("text", nlines) ("field",) ("bullets", n) ("enum", n) ("dir", nopts, opts_late, [children]) ("section", [children])
L = @@L@@                # exact length of every text piece
TL = @@TL@@              # title length
NCP = @@NCP@@
FILL = @@FILL@@          # concrete filler appended to every piece (long lines)
hc.quiet_logging()


def _count(nodes):
    n = 0
    for nd in nodes:
        k = nd[0]
        if k == "text": n += nd[1]
        elif k == "field": n += 2
        elif k in ("bullets", "enum"): n += nd[1]
        elif k == "dir": n += 2 + 2 * nd[1] + _count(nd[3])
        elif k == "section": n += 1 + _count(nd[1])
    return n


DURING = @@DURING@@      # serialise the whole document (to_text and str) after every construction step and discard the result
_top = [None]


def _poke():
    """'serialised any number of times', also in between construction steps: must not influence later serialisations"""
    if DURING and _top[0] is not None:
        _top[0].to_text()
        str(_top[0])


def build(w, nodes, depth, pc, ch1):
    """executes the script on the real writer `w`; returns the specification text of the same nodes"""
    out = ""
    for nd in nodes:
        _poke()
        k = nd[0]
        if k == "text":
            lines = [(pc.take(L) + FILL) for _ in range(nd[1])]
            txt = chr(10).join(lines)
            w.text(txt)
            out = out + spec.para(depth, txt)
        elif k == "field":
            a = (pc.take(L) + FILL); b = (pc.take(L) + FILL)
            w.field(a, b)
            out = out + spec.field(depth, a, b)
        elif k == "bullets":
            items = [(pc.take(L) + FILL) for _ in range(nd[1])]
            w.bulleted_list(*items)
            out = out + spec.bullets(depth, items)
        elif k == "enum":
            items = [(pc.take(L) + FILL) for _ in range(nd[1])]
            w.enumerated_list(*items)
            out = out + spec.enumerated(depth, items)
        elif k == "dir":
            name = (pc.take(L) + FILL); arg = (pc.take(L) + FILL)
            d = w.directive(name, arg)
            opts = [((pc.take(L) + FILL), (pc.take(L) + FILL)) for _ in range(nd[1])]
            if not nd[2]:
                for (a, b) in opts:
                    d.option(a, b)
            inner = build(d, nd[3], depth + 1, pc, ch1)
            if nd[2]:
                _poke()
                for (a, b) in opts:
                    d.option(a, b)
            out = out + spec.directive(depth, name, arg, opts, [inner] if len(nd[3]) > 0 else [])
        elif k == "section":
            t = (pc.take(L) + FILL)
            s = w.section(t)
            inner = build(s, nd[1], 0, pc, ch1)
            out = out + spec.heading(t, ch1) + inner + chr(10)
    return out


def check(cps: $$CPS$$, title: $$TT$$, title2: $$TT$$, hdr: Tuple[int, int]) -> bool:
    """
    pre: hc.cps_ok(cps, bad=(10,)) and hc.cps_ok(title, bad=(10,)) and hc.cps_ok(title2, bad=(10,)) and hc.cps_ok(hdr, bad=(10,))
    post: _
    """
    settings = Settings()
    ch0 = chr(hdr[0]); ch1 = chr(hdr[1])
    settings.rst.headers = [ch0, ch1]
    t1 = hc.S(title); t2 = hc.S(title2)
    w = RSTWriter(t1, settings=settings)
    _top[0] = w
    pc = hc.Pieces(cps)
    body = build(w, SCRIPT, 0, pc, ch1)
    n0 = len(w.document)
    a = w.to_text()
    b = w.to_text()
    c = str(w)
    ok = a == spec.heading(t1, ch0) + body and b == a and c == a and len(w.document) == n0
    if ok:
        other = RSTWriter("another document", settings=Settings())     # a second document with other header characters exists meanwhile
        other.text("x")
        w.title = t2                   # re-framed when the title is changed; the rest of the document is untouched
        ok = w.to_text() == spec.heading(t2, ch0) + body and w.title == t2
    if ok and len(SCRIPT) > 0 and len(w.document) > 1:
        # replace the last top-level element by a paragraph (same element count), serialise through str() and to_text()
        del w.document[-1]
        w.text(t1)
        ok = str(w) == w.to_text()
    if ok:
        w.clear()
        ok = w.to_text() == spec.heading(t2, ch0) and str(w) == spec.heading(t2, ch0)
        w.title = t1
        ok = ok and w.to_text() == spec.heading(t1, ch0)
    return hc.report(ok, cps=cps, title=title, title2=title2, hdr=hdr)
