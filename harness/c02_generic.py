"""C02 generic invocation: a documented command without a processor shows its name and ALL its arguments as written and in
order, parenthesised groups included (argument structure = shard constant, texts symbolic)."""
import hc, prog
from typing import Tuple
from cminx.config import Settings

STRUCT = @@STRUCT@@      # nested list: "s" = single argument (symbolic text), [..] = parenthesised group
L = @@L@@
NCP = @@NCP@@
NTOK = @@NTOK@@          # number of argument tokens (single arguments and both parentheses of every group)
hc.shim_re("real")
hc.quiet_logging()


def _build(struct, pc):
    out = []
    for x in struct:
        out.append(_build(x, pc) if isinstance(x, list) else (hc.UNQ, pc.take(L)))
    return out


MULTILINE = @@MULTILINE@@    # True: every argument token on a line of its own (columns arbitrary); False: all on one line (columns increasing)


def _pos_ok(gs, cs) -> bool:
    for i in range(NTOK):
        if gs[i] < 0 or cs[i] < 0:
            return False
    return True


def _positions(gs, cs):
    """token positions as a lexer assigns them (strictly increasing in (line, column)), built without case distinctions"""
    out = []
    line, col = 4, 0
    for i in range(NTOK):
        if MULTILINE:
            line = line + 1 + gs[i]
            col = cs[i]
        else:
            col = col + 1 + gs[i]
        out.append((line, col))
    return out


def check(cps: $$CPS$$, ls: $$PT$$, cs: $$PT$$) -> bool:
    """
    pre: hc.cps_ok(cps, bad=hc.PLAINBAD) and _pos_ok(ls, cs)
    post: _
    """
    pc = hc.Pieces(cps)
    args = _build(STRUCT, pc)
    cmds = [prog.cmd("some_command", args, hc.canon_block("", ["d"]), "d" + chr(10))]
    got = prog.real_page(cmds, Settings(), argpos=hc.Positions(_positions(ls, cs)))
    return hc.report(got == prog.spec_page(cmds), cps=cps, ls=ls, cs=cs)
