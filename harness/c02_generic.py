"""C02 generic invocation: a documented command without a processor shows its name and ALL its arguments as written and in
order, parenthesised groups included (argument structure = shard constant, texts symbolic)."""
import hc, prog
from typing import Tuple
from cminx.config import Settings

STRUCT = @@STRUCT@@      # nested list: "s" = single argument (symbolic text), [..] = parenthesised group
L = @@L@@
NCP = @@NCP@@
hc.shim_re("real")
hc.quiet_logging()


def _build(struct, pc):
    out = []
    for x in struct:
        out.append(_build(x, pc) if isinstance(x, list) else (hc.UNQ, pc.take(L)))
    return out


def check(cps: $$CPS$$) -> bool:
    """
    pre: hc.cps_ok(cps, bad=hc.PLAINBAD)
    post: _
    """
    pc = hc.Pieces(cps)
    args = _build(STRUCT, pc)
    cmds = [prog.cmd("some_command", args, hc.canon_block("", ["d"]), "d" + chr(10))]
    got = prog.real_page(cmds, Settings())
    return hc.report(got == prog.spec_page(cmds), cps=cps)
