"""C12.c: '@module <name>' doccomment -> exactly one module directive, first; name is title and module name; body under the module
directive only, never attached to the following command."""
import hc, prog, delta
from typing import List, Tuple
from cminx.config import Settings

HAS_NAME = @@HAS_NAME@@
NL_ = @@NAMELEN@@        # length of the module name
BLENS = @@BLENS@@        # length of every body line of the module doccomment (0 = empty line, written as the bare '#')
L = @@L@@                # length of the following command's doc line
FOLLOW_DOC = @@FOLLOW_DOC@@   # the following command carries its own doccomment
NCP = @@NCP@@            # NAMELEN + sum(BLENS) + L
hc.shim_re("real")
hc.quiet_logging()


def _pre(cps) -> bool:
    if not hc.cps_ok(cps, bad=(10, 13)):
        return False
    for c in cps[:NL_]:
        if not (33 <= c <= 126) or c in (40, 41, 35, 34, 92):
            return False
    return True


def check(cps: $$CPS$$, tc: Tuple[int, int], hc_: int) -> bool:
    """
    pre: _pre(cps) and hc.cps_ok(tc, bad=(10, 13)) and 0 <= hc_ <= 0x10FFFF and hc_ != 10
    post: _
    """
    pc = hc.Pieces(cps)
    name = pc.take(NL_) if HAS_NAME else ""
    if not HAS_NAME:
        pc.take(NL_)
    body = [pc.take(n) for n in BLENS]
    fdoc = pc.take(L)
    for x in body + [fdoc]:
        if "]]" in x:
            return True
    block = "#[[[ @module" + ((" " + name) if HAS_NAME else "")
    for b in body:
        block = block + chr(10) + ("# " + b if b else "#")
    block = block + chr(10) + "#]]"
    mdoc = "".join(b + chr(10) for b in body)
    fblock = hc.canon_block("", [fdoc]) if FOLLOW_DOC else None
    cmds = [prog.cmd("function", ["f", "a"], fblock, fdoc + chr(10)), prog.cmd("endfunction", [])]
    s = Settings()
    s.rst.headers = [chr(hc_), "*"]
    title = hc.S(tc)
    got = prog.real_page(cmds, s, title=title, module_name="mod.default", module_block=block)
    exp = delta.render_page(prog.spec_state(cmds), title, chr(hc_), "mod.default", module=(name, mdoc))
    return hc.report(got == exp, cps=cps, tc=tc, hc_=hc_)
